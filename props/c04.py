"""C04 — reading a file is lossless and a clean file is never rewritten.

Monitors:
 (a) post-condition on the real vsg.tokens.create:  "".join(create(s)) == s, no exception —
     exhaustive over all strings up to a length bound over the delimiter alphabet, then seeded
     random longer strings, then every line of the corpus;
 (b) post-condition on the real vhdlFile: get_lines()[1:] == lines read, and no token of exact
     class parser.item is left (every token classified) for accepted corpus files, their re-layout
     variants and line-ending / encoding variants through read_vhdlfile;
 (c) the real CLI observed from outside (stat + audit-hook trace of file-system events): a run
     without --fix, and a --fix run on a file that has no fixable violation, leave
     (bytes, inode, mtime_ns, mode, size) unchanged and perform no write-open / rename / chmod /
     remove on the target or <target>.tmp.
"""
import itertools
import json
import os
import random
import shutil
import sys
import time

from lib import cfgpool, harness, transforms, vsgapi

PROP = "C04"
ALPHABET = "\"'\\-/*=<>?:();._+&|[]#,@aexB1 \t"


# ------------------------------------------------------------------ worker


def _tok_check(s, bad, limit=5):
    from vsg import tokens

    try:
        r = tokens.create(s)
    except Exception as e:
        if len(bad) < limit:
            bad.append({"s": s, "exc": repr(e)[:200]})
        return False
    if "".join(r) != s or not all(isinstance(x, str) for x in r):
        if len(bad) < limit:
            bad.append({"s": s, "tokens": r})
        return False
    return True


def run_case(case):
    k = case["k"]
    if k == "tok_exh":
        bad = []
        n = 0
        nbad = 0
        pre = case["prefix"]
        for L in range(0, case["maxlen"] - len(pre) + 1):
            for tup in itertools.product(ALPHABET, repeat=L):
                n += 1
                if not _tok_check(pre + "".join(tup), bad):
                    nbad += 1
        return {"n": n, "nbad": nbad, "bad": bad}
    if k == "tok_rand":
        rng = random.Random(case["seed"])
        bad = []
        n = nbad = 0
        extra = "abcdefXYZ09_ \t\"'\\"
        for _ in range(case["n"]):
            L = rng.randrange(5, 41)
            alpha = ALPHABET + (extra if rng.random() < 0.5 else "")
            s = "".join(rng.choice(alpha) for _ in range(L))
            n += 1
            if not _tok_check(s, bad):
                nbad += 1
        return {"n": n, "nbad": nbad, "bad": bad}
    if k == "tok_corpus":
        bad = []
        n = nbad = 0
        for f in case["files"]:
            try:
                with open(os.path.join(vsgapi.REPO, f), encoding="utf-8", errors="surrogateescape") as fh:
                    lines = fh.read().split("\n")
            except OSError:
                continue
            for ln in lines:
                n += 1
                if not _tok_check(ln.rstrip("\r"), bad):
                    nbad += 1
        return {"n": n, "nbad": nbad, "bad": bad}
    if k == "parse":
        return _parse_case(case)
    if k == "cli":
        return _cli_case(case)
    raise ValueError(k)


def _materialise(case):
    lines = vsgapi.read_lines(os.path.join(vsgapi.REPO, case["file"]))
    text = "\n".join(lines)
    if case.get("variant"):
        t2 = transforms.transform(text, case["variant"][0], case["variant"][1])
        if t2 is None:
            return None
        text = t2
    return text


def _parse_case(case):
    from vsg import exceptions, parser
    from vsg.vhdlFile import utils as vu

    text = _materialise(case)
    if text is None:
        return {"status": "skip", "why": "transform n/a"}
    enc = case.get("enc")
    if enc:
        # through the real reader: write a file in that line-ending / encoding and read it back
        p = os.path.join(vsgapi.scratch(), "enc_%d.vhd" % harness.stable_hash(case["file"], enc))
        data = text
        if enc == "crlf":
            raw = data.replace("\n", "\r\n").encode("utf-8")
        elif enc == "latin1":
            raw = (data + "\n-- caf\xe9 \xb5s").encode("latin-1", "replace")
        elif enc == "latin1_late":
            # the first non-UTF-8 byte lies beyond the first decoding chunk (8 KiB) of the reader
            header = "\n".join("-- revision history line %04d ....................................................." % i for i in range(140))
            raw = (header + "\n-- author: Jos\xe9 Mu\xf1oz\n" + data).encode("latin-1", "replace")
        elif enc == "nbsp_ff":
            raw = (data + "\n--\xa0nbsp\n\f\n").encode("utf-8")
        elif enc == "bom":
            raw = b"\xef\xbb\xbf" + data.encode("utf-8")
        else:
            raw = data.encode("utf-8")
        with open(p, "wb") as fh:
            fh.write(raw)
        lines, err = vu.read_vhdlfile(p)
        os.remove(p)
        # what a reader must deliver, decoded independently of VSG
        try:
            mine = raw.decode("utf-8")
        except UnicodeDecodeError:
            mine = raw.decode("iso-8859-1")
        mine = [x.rstrip("\r") for x in mine.split("\n")]
        if mine and mine[-1] == "":
            mine = mine[:-1]
        got = [x.rstrip("\n").rstrip("\r") for x in lines]
        if got != mine:
            return {"read_differs": {"n_read": len(got), "n_expected": len(mine), "first": next(((i + 1, a, b) for i, (a, b) in enumerate(itertools.zip_longest(mine, got)) if a != b), None)}, "nlines": len(got)}
    else:
        lines = text.split("\n")
    try:
        f = vsgapi.parse_only(lines)
    except exceptions.ClassifyError:
        return {"status": "rejected"}
    out = f.get_lines()[1:]
    res = {"nlines": len(lines)}
    exp = [l.rstrip("\n").rstrip("\r") for l in lines]
    if out != exp:
        for i, (a, b) in enumerate(itertools.zip_longest(exp, out)):
            if a != b:
                res["emit_diff"] = {"line": i + 1, "read": a, "emitted": b}
                break
    raw_items = [(i, t.get_value()) for i, t in enumerate(f.lAllObjects) if type(t) is parser.item]
    if raw_items:
        res["unclassified"] = raw_items[:5]
        res["n_unclassified"] = len(raw_items)
    res["ntokens"] = len(f.lAllObjects)
    return res


def _fixable_error_violations(oRules):
    out = []
    for o in oRules.rules:
        if o.violations and o.fixable and o.severity.type == "error" and not o.disable:
            out.append(o.unique_id)
    return out


def _stat(p):
    st = os.stat(p)
    with open(p, "rb") as fh:
        data = fh.read()
    return {"ino": st.st_ino, "mtime_ns": st.st_mtime_ns, "mode": st.st_mode, "size": st.st_size, "sha": harness.hashlib.sha1(data).hexdigest()}


def _cli_case(case):
    from vsg import exceptions

    style, dicts = cfgpool.pool_entry(case["cfg"])
    text = _materialise(case)
    if text is None:
        return {"status": "skip", "why": "transform n/a"}
    d = os.path.join(vsgapi.scratch(), "cli_%d" % harness.stable_hash(json.dumps(case, sort_keys=True)))
    os.makedirs(d, exist_ok=True)
    try:
        mode = case["mode"]
        decorated = False
        cfgpaths = [vsgapi.write_config_file(x) for x in dicts]
        if mode == "fix_clean":
            a, oConfig = vsgapi.make_config(style, dicts)
            lines = text.split("\n")
            clean = False
            for _ in range(3):
                try:
                    f, r = vsgapi.build(lines, a, oConfig)
                except exceptions.ClassifyError:
                    return {"status": "rejected"}
                r.check_rules(bAllPhases=True)
                if not _fixable_error_violations(r):
                    clean = True
                    break
                f, r = vsgapi.build(lines, a, oConfig)
                r.fix()
                lines = f.get_lines()[1:]
            if not clean:
                return {"status": "skip", "why": "not violation-free after 3 fix passes (C09/C10 territory)"}
            # decorate: things a --fix run normalises in memory (trailing blanks, runs of blank lines) that are
            # only "violations" when the corresponding rule is enabled; keep the decoration if the file is still clean
            rng = random.Random(harness.stable_hash("c04deco", json.dumps(case, sort_keys=True)))
            deco = list(lines)
            for _ in range(3):
                i = rng.randrange(len(deco))
                deco[i] = deco[i] + rng.choice(["  ", " ", "\t"])
            try:
                f, r = vsgapi.build(deco, a, oConfig)
                r.check_rules(bAllPhases=True)
                if not _fixable_error_violations(r):
                    lines = deco
                    decorated = True
            except Exception:
                pass
            text = "\n".join(lines)
        target = os.path.join(d, "t.vhd")
        with open(target, "w", encoding="utf-8") as fh:
            fh.write(text + "\n")
        os.chmod(target, case.get("chmod", 0o644))
        past = time.time() - 1000
        os.utime(target, (past, past))
        before = _stat(target)
        audit = os.path.join(d, "audit.jsonl")
        args = ["-f", target, "-p", "1"]
        if style:
            args += ["--style", style]
        if cfgpaths:
            args += ["-c"] + cfgpaths
        if mode == "fix_clean":
            args += ["--fix"]
        elif mode == "nofix_ap":
            args += ["-ap"]
        rc, so, se = vsgapi.run_cli(args, cwd=d, launcher=os.path.join(vsgapi.VERIF, "lib", "vsg_launch.py"), env_extra={"VSG_VERIF_AUDIT": audit})
        after = _stat(target)
        res = {"rc": rc, "mode": mode, "decorated": decorated}
        if "Traceback" in se:
            res["traceback"] = se[-800:]
        diffs = {k: (before[k], after[k]) for k in before if before[k] != after[k]}
        if diffs:
            res["stat_changed"] = diffs
        ev = []
        if os.path.exists(audit):
            with open(audit) as fh:
                for ln in fh:
                    e = json.loads(ln)
                    if any(isinstance(x, str) and (x == target or x == target + ".tmp" or x == target + ".bak") for x in e["args"]):
                        ev.append(e)
        if ev:
            res["fs_events_on_target"] = ev[:6]
        if os.path.exists(target + ".tmp"):
            res["tmp_left"] = True
        res["stdout_tail"] = so[-300:]
        return res
    finally:
        shutil.rmtree(d, ignore_errors=True)


# ------------------------------------------------------------------ driver


def _cases(tier, seed):
    rng = random.Random(seed)
    corpus = vsgapi.corpus()
    cases = []
    maxlen = 4 if tier == "quick" else 5
    plen = 1 if tier == "quick" else 2
    cases.append({"k": "tok_exh", "prefix": "", "maxlen": plen - 1})
    for tup in itertools.product(ALPHABET, repeat=plen):
        cases.append({"k": "tok_exh", "prefix": "".join(tup), "maxlen": maxlen})
    nrand = 20000 if tier == "quick" else 400000
    for i in range(16 if tier == "quick" else 64):
        cases.append({"k": "tok_rand", "seed": seed * 1000 + i, "n": nrand // (16 if tier == "quick" else 64)})
    chunk = 100
    for i in range(0, len(corpus), chunk):
        cases.append({"k": "tok_corpus", "files": corpus[i : i + chunk]})
    # (b)
    for f in corpus:
        cases.append({"k": "parse", "file": f})
    nvar = 400 if tier == "quick" else 4000
    for f in harness.sample(rng, corpus, nvar):
        cases.append({"k": "parse", "file": f, "variant": [rng.choice(transforms.KINDS), rng.randrange(0, 3 if tier == "quick" else 12)]})
    for f in harness.sample(rng, corpus, 120 if tier == "quick" else 1200):
        cases.append({"k": "parse", "file": f, "enc": rng.choice(["crlf", "latin1", "latin1_late", "nbsp_ff", "bom"])})
    # (c)
    ncli = 48 if tier == "quick" else 480
    pool = ["none", "jcl", "indent_only", "tabs4", "upper", "ws_rules_off", "ws_rules_off", "rand_disabled", "rand_warning", "ws_rules_warning"]
    for f in harness.sample(rng, corpus, ncli):
        mode = rng.choice(["fix_clean", "fix_clean", "nofix", "nofix_ap"])
        cases.append({"k": "cli", "file": f, "cfg": rng.choice(pool), "mode": mode, "chmod": rng.choice([0o644, 0o600, 0o664])})
    return cases


def judge(case, res, V):
    """Returns (nontrivial_key or None). Registers violations on V."""
    st = res.get("status", "ok")
    k = case["k"]
    if st in ("harness_error", "worker_died", "inconclusive", "hang"):
        if st == "hang" and k in ("parse",):
            V.violation("parse:hang", case, res)
        else:
            V.note_inconclusive("%s: %s %s" % (k, st, str(res.get("detail"))[:200]))
        return None
    if k.startswith("tok_"):
        if res["nbad"]:
            b = res["bad"][0]
            key = "tokenize:" + ("exception" if "exc" in b else "not-lossless")
            V.violation(key, {"k": "tok_one", "s": b["s"]}, b)
        return None
    if k == "parse":
        if st in ("skip", "rejected"):
            return None
        cls = "enc:" + case["enc"] if case.get("enc") else ("variant" if case.get("variant") else "plain")
        if "read_differs" in res:
            V.violation("reader-not-lossless:" + cls, case, res["read_differs"])
            return "parse:%s:%s" % (case["file"], case.get("variant") or case.get("enc"))
        if "emit_diff" in res:
            V.violation("emit-differs:" + cls, case, res["emit_diff"])
        if "unclassified" in res:
            V.violation("unclassified-token:" + cls, case, res["unclassified"])
        return "parse:%s:%s" % (case["file"], case.get("variant") or case.get("enc"))
    if k == "cli":
        if st in ("skip", "rejected"):
            return None
        if "stat_changed" in res or "fs_events_on_target" in res or res.get("tmp_left"):
            what = "rewritten" if "stat_changed" in res and "sha" not in res["stat_changed"] else "modified"
            if "stat_changed" not in res:
                what = "fs-event"
            V.violation("cli:%s:%s" % (case["mode"], what), case, res)
        if "traceback" in res:
            return None  # an unhandled exception is C19's business; nothing to conclude about C04 from this run
        return "cli:%s:%s:%s" % (case["file"], case["cfg"], case["mode"])
    return None


def main(tier):
    t0 = time.time()
    seed = harness.seed()
    cases = _cases(tier, seed)
    results = harness.run_cases("props.c04", cases, cpu=300, wall=1200)
    V = harness.Verdict(PROP)
    ntok = 0
    nontriv = set()
    counts = {}
    for c, r in zip(cases, results):
        counts[c["k"]] = counts.get(c["k"], 0) + 1
        if c["k"].startswith("tok_") and "n" in r:
            ntok += r["n"]
        key = judge(c, r, V)
        if key:
            nontriv.add(key)
    parse_ok = sum(1 for c, r in zip(cases, results) if c["k"] == "parse" and r.get("status", "ok") == "ok")
    cli_ok = sum(1 for c, r in zip(cases, results) if c["k"] == "cli" and r.get("status", "ok") == "ok")
    cli_skip = sum(1 for c, r in zip(cases, results) if c["k"] == "cli" and r.get("status") == "skip")
    if ntok < 100000:
        V.note_inconclusive("tokenizer monitor evaluated only %d strings" % ntok)
    if parse_ok < 500:
        V.note_inconclusive("only %d accepted parse cases" % parse_ok)
    if cli_ok < 10:
        V.note_inconclusive("only %d CLI observations" % cli_ok)
    rc = V.finish()
    samples = [{"case": c, "result": {k: v for k, v in r.items() if k not in ("stdout_tail",)}} for c, r in list(zip(cases, results))[-3:]]
    samples.append({"tokenizer_strings": ["".join(t) for t in itertools.islice(itertools.product(ALPHABET, repeat=3), 1000, 1006)]})
    harness.write_evidence(
        PROP,
        tier,
        "exploration",
        {
            "evaluations": ntok + parse_ok + cli_ok,
            "distinct_nontrivial": len(nontriv) + ntok,
            "rule": "tokenizer: every distinct string over the 31-char delimiter alphabet up to length %d (exhaustive) + seeded random strings of length 5..40 + every corpus line (each string is a distinct case); parse: one case per (corpus file, variant/encoding) accepted by VSG; cli: one per (file, config, mode) actually observed. Skipped/rejected cases are not counted." % (4 if tier == "quick" else 5),
            "samples": samples,
            "exhaustive": False,
            "tokenizer_exhaustive_up_to_length": 4 if tier == "quick" else 5,
            "tokenizer_strings_checked": ntok,
            "parse_cases_accepted": parse_ok,
            "cli_observations": cli_ok,
            "cli_skipped_not_clean": cli_skip,
            "case_counts": counts,
            "known_findings_hit": sorted(V.known_hit),
            "inconclusive": V.inconclusive[:10],
        },
        time.time() - t0,
        len(V.unknown),
        assumptions=[
            "audit events and os.stat are the ground truth for 'untouched'",
            "a file is 'without fixable violations' when an all-phases check under the same configuration reports no violation of an enabled, fixable, error-severity rule",
        ],
    )
    return rc


def replay(path):
    with open(path) as f:
        d = json.load(f)
    case = d["case"]
    if case.get("k") == "tok_one":
        bad = []
        ok = _tok_check(case["s"], bad)
        print(json.dumps({"ok": ok, "bad": bad}))
        if not ok:
            print("VIOLATION property=%s replay=%s" % (PROP, path))
            return 1
        return 0
    res = run_case(case)
    V = harness.Verdict(PROP)
    judge(case, res, V)
    print(json.dumps(res, indent=1, default=str)[:3000])
    vsgapi.cleanup_scratch()
    if V.unknown or V.known_hit:
        print("VIOLATION property=%s replay=%s" % (PROP, path))
        return 1
    return 0
