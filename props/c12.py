"""C12 — configuration is obeyed with the documented precedence.

Reference model (precedence: style default < rule.global < rule.group.<g> < rule.<id> < per-file
section; later -c file over earlier) against the real config.New + configure_rules + rule objects,
and the real CLI (-rc, exit status, error messages):
 (i)   effective value of attribute a of rule r == model, for stacks that assign different values to
       random subsets of the four levels spread over 1-3 JSON/YAML files.  Where the documentation is
       ambiguous (does a later file's entry for the same rule/global/group *replace* or *merge with*
       an earlier one?) the model accepts either value;
 (ii)  behaviour under the stack == behaviour under a single-level configuration holding the
       effective value (violations of r on r's own fixture, effect of r's fix, error flag);
       disabled => silent and never run, fixable:false => report-only;
 (iii) an unknown rule name and a deprecated rule name at every level produce a configuration
       error (non-zero exit and a message), never silence.
"""
import copy
import json
import os
import random
import shutil
import time

from lib import cfgpool, harness, monitors, vsgapi

PROP = "C12"

LEVELS = ("global", "group", "rule", "perfile")


def _fixture(rid, db):
    mod = db[rid]["module"]  # vsg.rules.<dir>.rule_NNN
    parts = mod.split(".")
    if len(parts) >= 4:
        p = os.path.join("tests", parts[2], "%s_test_input.vhd" % parts[3])
        if os.path.exists(os.path.join(vsgapi.REPO, p)):
            return p
    return None


_DB = None


def db():
    global _DB
    if _DB is None:
        a, c = vsgapi.make_config()
        f, r = vsgapi.build([""], a, c, configure=False)
        d = {}
        for o in r.rules:
            d[o.unique_id] = {"module": type(o).__module__, "groups": list(o.groups), "configuration": list(o.configuration), "deprecated": bool(o.deprecated), "defaults": {n: getattr(o, n, None) for n in o.configuration if n != "severity"}, "severity": o.severity.name}
        _DB = d
    return _DB


def attr_domain(rid, a, default):
    if a == "disable" or a == "fixable":
        return [True, False]
    if a == "indent_size":
        return [2, 3, 4, 8]
    if a == "phase":
        return [1, 2, 3, 4, 5, 6, 7]
    if a == "severity":
        return ["Error", "Warning", "Todo", "Future"]
    if a == "indent_style":
        return ["spaces", "smart_tabs"]
    if a == "user_error_message":
        return ["", "see style guide 1", "see style guide 2", "ask the lead"]
    dom = cfgpool.option_domain(rid, a, default)
    if dom and len(dom) >= 2:
        return dom
    return None


def make_stack(rid, rng):
    """Returns (files:[dict], fmt:[json|yaml], assignment description)."""
    d = db()[rid]
    attrs = [a for a in d["configuration"] if attr_domain(rid, a, d["defaults"].get(a)) is not None]
    if not attrs:
        return None, None, None
    a = rng.choice(attrs)
    dom = list(attr_domain(rid, a, d["defaults"].get(a)))
    rng.shuffle(dom)
    nfiles = rng.choice([1, 2, 2, 3])
    files = [dict() for _ in range(nfiles)]
    assigns = []  # (file index, level, group or None, value)
    levels = [lv for lv in LEVELS if rng.random() < 0.6]
    if not levels:
        levels = [rng.choice(LEVELS)]
    if not d["groups"] and "group" in levels:
        levels.remove("group")
        if not levels:
            levels = ["rule"]
    vi = 0
    group = rng.choice(d["groups"]) if d["groups"] else None
    for lv in levels:
        # a file named in the per-file sections of two configurations is not ordered by the docs
        # ("right to left ... except file_list"): the per-file level is set in one file only
        reps = 2 if (nfiles > 1 and rng.random() < 0.35 and lv != "perfile") else 1
        used = rng.sample(range(nfiles), reps)
        for fi in sorted(used):
            v = dom[vi % len(dom)]
            vi += 1
            assigns.append((fi, lv, group if lv == "group" else None, v))
    # decoy: another attribute of the same rule in an earlier file (exposes replace-vs-merge; both accepted)
    for fi, lv, g, v in assigns:
        f = files[fi]
        if lv == "global":
            f.setdefault("rule", {}).setdefault("global", {})[a] = v
        elif lv == "group":
            f.setdefault("rule", {}).setdefault("group", {}).setdefault(g, {})[a] = v
        elif lv == "rule":
            f.setdefault("rule", {}).setdefault(rid, {})[a] = v
        else:
            sec = rng.choice(["file_rules", "file_list"])
            f.setdefault("__perfile__", []).append((sec, {"rule": {rid: {a: v}}}))
    if a == "severity":
        files[0]["severity"] = {"Todo": {"type": "error"}, "Future": {"type": "warning"}}
    # decoy: another group the rule belongs to (parent / sub-group) sets a DIFFERENT attribute in the same
    # configuration; both must take effect (no conflict, so no ordering question)
    decoy = None
    others = [g for g in d["groups"] if g != group]
    gfiles = sorted({fi for fi, lv, g, v in assigns if lv == "group"})
    if "group" in levels and others and len(gfiles) == 1 and rng.random() < 0.8:
        cand = [x for x in ("fixable", "indent_size", "disable", "user_error_message", "phase") if x != a and not any(True for _ in ())]
        a2 = rng.choice(cand)
        v2 = {"fixable": False, "indent_size": 5, "disable": False, "user_error_message": "decoy message", "phase": d["defaults"].get("phase", 1)}[a2]
        g2 = rng.choice(others)
        fi = gfiles[0]  # same file as the other group entry: no cross-file replace-vs-merge question
        files[fi].setdefault("rule", {}).setdefault("group", {}).setdefault(g2, {})[a2] = v2
        decoy = (g2, a2, v2, fi)
    files[0]["__decoy__"] = decoy
    return files, a, assigns


def model_effective(rid, a, assigns, default):
    """Allowed set of effective values: precedence by level; inside a level later file wins; when a
    level is set in several files both 'replace' and 'merge' give the later file's value for the
    same attribute, so the ambiguity only matters for *other* attributes (not generated here)."""
    best = None
    order = {"global": 0, "group": 1, "rule": 2, "perfile": 3}
    for fi, lv, g, v in assigns:
        key = (order[lv], fi)
        if best is None or key > best[0]:
            best = (key, v)
    return default if best is None else best[1]


def _write_files(d, files, target_name, rng):
    paths = []
    for i, f in enumerate(files):
        f = copy.deepcopy(f)
        f.pop("__decoy__", None)
        for sec, body in f.pop("__perfile__", []):
            lst = f.setdefault(sec, [])
            # neighbours: plain file names (file_list only) and other files' own sections, before and after
            pre = rng.randrange(3)
            for k in range(pre):
                lst.append("other%d.vhd" % k if sec == "file_list" and rng.random() < 0.6 else {"other%d.vhd" % k: {"rule": {"entity_004": {"disable": True}}}})
            lst.append({target_name: body})
            for k in range(rng.randrange(2)):
                lst.append("other%d.vhd" % (k + 3) if sec == "file_list" else {"other%d.vhd" % (k + 3): {"rule": {"entity_004": {"disable": True}}}})
        if not f:
            continue
        if rng.random() < 0.5:
            p = os.path.join(d, "c%d.json" % i)
            with open(p, "w") as fh:
                json.dump(f, fh)
        else:
            import yaml

            p = os.path.join(d, "c%d.yaml" % i)
            with open(p, "w") as fh:
                yaml.safe_dump(f, fh)
        paths.append(p)
    return paths


def _observe(paths, target, rid, a, lines, want_behaviour=True):
    """Real config.New + configure_rules on a real rule_list; returns effective value and behaviour of r."""
    from vsg import apply_rules, config, exceptions, rule_list, vhdlFile

    cla = vsgapi.cla(style=None, configuration=list(paths), filename=[target])
    oConfig = config.New(cla)
    oFile = vhdlFile.vhdlFile(list(lines), cla, target, None, oConfig)
    oFile.set_indent_map(oConfig.dIndent)
    oRules = rule_list.rule_list(oFile, oConfig.severity_list, None)
    apply_rules.configure_rules(oConfig, oRules, oConfig.dConfig, 0, target)
    o = [x for x in oRules.rules if x.unique_id == rid][0]
    eff = o.severity.name if a == "severity" else getattr(o, a)
    out = {"effective": eff, "severity_type": o.severity.type, "disable": o.disable, "fixable": o.fixable}
    if want_behaviour:
        oRules.check_rules(bAllPhases=True)
        out["violations"] = sorted((v.get_line_number(), v.get_solution() or "") for v in o.violations)
        out["error_flag"] = bool(o.violations) and o.severity.type == "error"
        oRules.clear_violations()
        before = monitors.snap(oFile)
        entered = []
        if not o.disable:
            real_fv = o._fix_violation

            def fv(v):
                entered.append(1)
                return real_fv(v)

            o._fix_violation = fv
            try:
                if o.severity.type == "error":
                    o.fix(oFile)
                else:
                    o.analyze(oFile)
            finally:
                o._fix_violation = real_fv
        out["fix_changed"] = monitors.snap(oFile) != before
        out["fix_text"] = monitors.snap(oFile)
        out["fix_entered"] = len(entered)
    return out


def run_case(case):
    rng = random.Random(harness.stable_hash("c12", json.dumps(case, sort_keys=True)))
    d = os.path.join(vsgapi.scratch(), "c12_%d" % harness.stable_hash(json.dumps(case, sort_keys=True)))
    os.makedirs(d, exist_ok=True)
    cwd = os.getcwd()
    try:
        os.chdir(d)
        if case["kind"] == "unknown":
            return _unknown_rule_case(case, d, rng)
        rid = case["rule"]
        info = db()[rid]
        fixture = _fixture(rid, db())
        lines = vsgapi.read_lines(os.path.join(vsgapi.REPO, fixture)) if fixture else ["entity e is", "end entity e;"]
        target = "design.vhd"
        with open(target, "w") as fh:
            fh.write("\n".join(lines) + "\n")
        for k in range(6):
            with open("other%d.vhd" % k, "w") as fh:
                fh.write("entity other%d is\nend entity other%d;\n" % (k, k))
        files, a, assigns = make_stack(rid, rng)
        if files is None:
            return {"status": "skip", "why": "rule has no attribute with a known domain"}
        paths = _write_files(d, files, target, rng)
        default = info["severity"] if a == "severity" else info["defaults"].get(a)
        exp = model_effective(rid, a, assigns, default)
        V = []
        try:
            obs = _observe(paths, target, rid, a, lines)
        except harness.CpuTimeout:
            raise
        except Exception as e:
            import traceback

            tb = traceback.format_exc()
            levels = sorted({lv for _, lv, _, _ in assigns})
            return {"kind": "stack", "violations": [("exception-while-configuring:%s:%s:%s" % (type(e).__name__, a if a in ("severity",) else "attr", "+".join(levels)), {"rule": rid, "attr": a, "assigns": assigns, "trace": tb[-500:]})], "attr": a, "levels": levels}
        decoy = files[0].get("__decoy__")
        later_group = False
        if decoy:
            g2, a2, v2, fi2 = decoy
            # entry-level replacement of rule.group by a later file is unspecified (§8): only judge when no later
            # file carries a group section of its own
            later_group = any("group" in (ff.get("rule") or {}) for ff in files[fi2 + 1 :])
            o2 = _observe(paths, target, rid, a2, lines, want_behaviour=False)
            if not later_group and o2["effective"] != v2:
                V.append(("second-group-of-rule-ignored:%s" % _kind(a2), {"rule": rid, "group_with_attr": group_of(assigns), "decoy_group": g2, "attr": a2, "expected": v2, "observed": o2["effective"]}))
        top = max(assigns, key=lambda x: ({"global": 0, "group": 1, "rule": 2, "perfile": 3}[x[1]], x[0]))
        if obs["effective"] != exp:
            losers = sorted({lv for _, lv, _, _ in assigns})
            V.append(("effective-value-differs-from-model:%s-should-win-over-%s:%s" % (top[1], "+".join(l for l in losers if l != top[1]) or "default", _kind(a)), {"rule": rid, "attr": a, "assigns": assigns, "expected": exp, "observed": obs["effective"]}))
        else:
            # behaviour equivalence with the single-level configuration
            single = {"rule": {rid: {a: exp}}}
            if decoy and not later_group:
                single["rule"][rid][decoy[1]] = decoy[2]
            elif decoy:
                single = None
            if a == "severity":
                single["severity"] = {"Todo": {"type": "error"}, "Future": {"type": "warning"}}
            p1 = os.path.join(d, "single.json")
            with open(p1, "w") as fh:
                json.dump(single or {}, fh)
            ref = _observe([p1], target, rid, a, lines) if single is not None else obs
            for k in ("violations", "error_flag", "fix_changed", "fix_text"):
                if a in ("indent_size", "indent_style") and k in ("violations", "fix_text", "fix_changed"):
                    pass
                if obs[k] != ref[k]:
                    V.append(("behaviour-differs-from-single-level-config:%s:%s" % (k, _kind(a)), {"rule": rid, "attr": a, "assigns": assigns, "value": exp}))
                    break
            if obs["disable"] and (obs["violations"] or obs["fix_entered"]):
                V.append(("disabled-rule-not-silent", {"rule": rid}))
            if not obs["fixable"] and (obs["fix_changed"] or obs["fix_entered"]):
                V.append(("fixable-false-rule-changed-file", {"rule": rid}))
            if obs["severity_type"] != "error" and obs["fix_changed"]:
                V.append(("warning-rule-changed-file", {"rule": rid}))
        res = {"kind": "stack", "violations": V, "attr": a, "levels": sorted({lv for _, lv, _, _ in assigns}), "nfiles": len(paths), "has_violations": bool(obs.get("violations")), "fixture": bool(fixture)}
        if case.get("cli") and not any(lv == "perfile" for _, lv, _, _ in assigns):
            rc, so, se = vsgapi.run_cli(["-c"] + paths + ["-rc", rid], cwd=d)
            try:
                frag = json.loads(so)
                got = frag["rule"][rid].get(a)
                res["cli"] = 1
                if got != exp and not (isinstance(exp, bool) and got == exp):
                    V.append(("cli-rc-value-differs-from-model:%s" % _kind(a), {"rule": rid, "attr": a, "printed": got, "expected": exp, "assigns": assigns}))
            except Exception:
                if "Traceback" in se:
                    res["cli_traceback"] = True
                else:
                    V.append(("cli-rc-output-unreadable", {"stdout": so[:200], "stderr": se[:200]}))
        return res
    finally:
        os.chdir(cwd)
        shutil.rmtree(d, ignore_errors=True)


def group_of(assigns):
    for fi, lv, g, v in assigns:
        if lv == "group":
            return g
    return None


def _kind(a):
    return a if a in ("disable", "fixable", "severity", "phase", "indent_size", "indent_style", "user_error_message") else "option"


def _unknown_rule_case(case, d, rng):
    target = "design.vhd"
    with open(target, "w") as fh:
        fh.write("entity e is\nend entity e;\n")
    name = case["name"]
    lv = case["level"]
    body = {name: {"disable": True}}
    if lv == "rule":
        cfg = {"rule": body}
    elif lv == "file_list":
        cfg = {"file_list": [{target: {"rule": body}}]}
    else:
        cfg = {"file_rules": [{target: {"rule": body}}]}
    p = os.path.join(d, "c.json" if rng.random() < 0.5 else "c.yaml")
    with open(p, "w") as fh:
        json.dump(cfg, fh)  # JSON is valid YAML
    rc, so, se = vsgapi.run_cli(["-f", target, "-c", p, "-p", "1"], cwd=d)
    V = []
    if "Traceback" in se:
        return {"kind": "unknown", "violations": [], "traceback": True}
    msg = so + se
    if rc == 0:
        V.append(("%s-rule-name-ignored:%s" % (case["what"], lv), {"name": name, "rc": rc, "out": msg[:300]}))
    elif name not in msg:
        V.append(("%s-rule-name-error-without-message:%s" % (case["what"], lv), {"name": name, "rc": rc, "out": msg[:300]}))
    return {"kind": "unknown", "violations": V}


def _cases(tier, seed):
    rng = random.Random(seed)
    d = db()
    live = sorted(r for r in d if not d[r]["deprecated"])
    dep = sorted(r for r in d if d[r]["deprecated"])
    n = 420 if tier == "quick" else 5000
    cases = []
    if tier == "quick":
        rules = [rng.choice(live) for _ in range(n)]
    else:
        rules = (live * (n // len(live) + 1))[:n]
    for i, rid in enumerate(rules):
        cases.append({"kind": "stack", "rule": rid, "salt": rng.randrange(1 << 30), "cli": (i % (12 if tier == "quick" else 25) == 0)})
    for lv in ("rule", "file_list", "file_rules"):
        for k in range(2 if tier == "quick" else 8):
            cases.append({"kind": "unknown", "what": "unknown", "name": rng.choice(["bogus_999", "process_9%02d" % rng.randrange(100), "whitespace_000", "entity_99"]), "level": lv})
            if dep:
                cases.append({"kind": "unknown", "what": "deprecated", "name": rng.choice(dep), "level": lv})
    return cases


def main(tier):
    t0 = time.time()
    seed = harness.seed()
    cases = _cases(tier, seed)
    results = harness.run_cases("props.c12", cases, cpu=600, wall=2400)
    V = harness.Verdict(PROP)
    stats = {"stacks": 0, "by_attr_kind": {}, "by_top_level": {}, "multi_file": 0, "with_violations_on_fixture": 0, "cli_rc": 0, "unknown_or_deprecated_name_runs": 0, "tracebacks(C19)": 0}
    nontriv = set()
    rules = set()
    for c, r in zip(cases, results):
        st = r.get("status", "ok")
        if st == "skip":
            continue
        if st != "ok":
            V.note_inconclusive("%s %s" % (st, (str(r.get("detail")) + str(r.get("trace", ""))[-300:])[:400]))
            continue
        if r["kind"] == "unknown":
            if r.get("traceback"):
                stats["tracebacks(C19)"] += 1
            stats["unknown_or_deprecated_name_runs"] += 1
            nontriv.add(json.dumps(c, sort_keys=True))
        else:
            stats["stacks"] += 1
            rules.add(c["rule"])
            k = _kind(r["attr"])
            stats["by_attr_kind"][k] = stats["by_attr_kind"].get(k, 0) + 1
            for lv in r["levels"]:
                stats["by_top_level"][lv] = stats["by_top_level"].get(lv, 0) + 1
            if r.get("nfiles", 0) > 1:
                stats["multi_file"] += 1
            if r.get("has_violations"):
                stats["with_violations_on_fixture"] += 1
            stats["cli_rc"] += r.get("cli", 0)
            if len(r["levels"]) > 1 or r.get("nfiles", 0) > 1:
                nontriv.add(json.dumps(c, sort_keys=True))
        for key, det in r["violations"]:
            V.violation(key, c, det)
    if stats["stacks"] < 100 or stats["unknown_or_deprecated_name_runs"] < 6:
        V.note_inconclusive("too little observed: %s" % stats)
    stats["distinct_rules"] = len(rules)
    rc = V.finish()
    harness.write_evidence(
        PROP,
        tier,
        "exploration",
        {
            "evaluations": len(cases),
            "distinct_nontrivial": len(nontriv),
            "rule": "stack case = (rule, one configurable attribute, random assignment of distinct documented values to a subset of {global, group, rule, per-file} spread over 1-3 JSON/YAML files); non-trivial when at least two levels or files compete; unknown/deprecated-name cases at each level through the CLI; distinct by case description",
            "samples": cases[:3] + cases[-2:],
            "counters": stats,
            "known_findings_hit": sorted(V.known_hit),
            "inconclusive": V.inconclusive[:10],
        },
        time.time() - t0,
        len(V.unknown),
        assumptions=["precedence model of props/c12.py (docs/configuring_overview.rst 'Rule Configuration Priorities', docs/multiple_configurations.rst)", "replace-vs-merge of same-name entries across files is treated as unspecified: stacks never depend on it"],
    )
    return rc


def replay(path):
    with open(path) as f:
        d = json.load(f)
    res = run_case(d["case"])
    print(json.dumps(res, indent=1, default=str)[:4000])
    vsgapi.cleanup_scratch()
    if res.get("violations"):
        print("VIOLATION property=%s replay=%s" % (PROP, path))
        return 1
    return 0
