"""C17 — the emitted configuration reproduces the run.

Round trip through the real CLI and the real configuration reader:
  oc1 = `vsg [--style s] [-c stack] -oc f1`;  oc2 = `vsg -c f1 -oc f2` (no style)
Oracle: f1 == f2 byte-wise; for sampled inputs the violations and the fixed text under `-c f1`
equal those under the original (style, stack); the fragment printed by `-rc r`, used as the only
configuration entry for r, reproduces r's effective attributes.
Stacks: every pool entry, indexed random configurations over documented option values, YAML with
unquoted yes/no (booleans), user-defined severities, indent overrides and pragma patterns.
"""
import json
import os
import random
import shutil
import time

from lib import cfgpool, fixrun, harness, monitors, vsgapi

PROP = "C17"


def _stack(spec, rng):
    """Returns (style, [(dict, 'json'|'yaml')], tags)."""
    kind = spec["kind"]
    if kind == "pool":
        style, dicts = cfgpool.pool_entry(spec["name"])
        return style, [(d, "json") for d in dicts]
    if kind == "rc":
        style, dicts = cfgpool.random_config(spec["idx"])
        return style, [(d, rng.choice(["json", "yaml"])) for d in dicts]
    if kind == "severity":
        db = cfgpool.rule_db()
        ids = sorted(db)
        rules = {rid: {"severity": rng.choice(["Todo", "Future", "Warning", "Error"])} for rid in rng.sample(ids, 40)}
        return spec.get("style", "jcl"), [({"severity": {"Todo": {"type": "error"}, "Future": {"type": "warning"}}}, "json"), ({"rule": rules}, "yaml")]
    if kind == "indent":
        d = {"indent": {"tokens": {"architecture_body": {"begin_keyword": {"token": 0, "after": 2}}, "process_statement": {"begin_keyword": {"token": "current", "after": "+2"}}}}, "rule": {"global": {"indent_size": rng.choice([2, 3, 4])}}}
        return "jcl", [(d, rng.choice(["json", "yaml"]))]
    if kind == "pragma":
        d = {"pragma": {"patterns": {"single": ["^\\s*--\\s+mytool\\s+\\w+\\s*$"], "open": ["^\\s*--\\s+mytool\\s+off\\s*$"], "close": ["^\\s*--\\s+mytool\\s+on\\s*$"]}}}
        return "jcl", [(d, "json")]
    if kind == "pragma_reordered":
        # the documented default patterns, with the pattern types listed in another order
        from vsg import config as vsgconfig

        pats = vsgconfig.dPragmas
        order = spec["order"]
        d = {"pragma": {"patterns": {k: list(pats[k]) for k in order}}}
        return "jcl", [(d, "yaml_keep_order")]
    if kind == "global_opts":
        # option names of some rules given at the GLOBAL level (applies to every rule that has the option)
        db = cfgpool.rule_db()
        names = sorted({o for m in db.values() for o in m["options"] if o in cfgpool.YESNO or o in ("case", "number_of_spaces", "style")})
        # plus option-like attributes that base classes carry without advertising them
        names += ["aggregate_parens_ends_group", "ignore_single_line_aggregates", "generate_statement_ends_group", "if_control_statements_ends_group", "case_control_statements_ends_group", "loop_control_statements_ends_group"]
        g = {}
        hidden = ["aggregate_parens_ends_group", "ignore_single_line_aggregates", "generate_statement_ends_group", "if_control_statements_ends_group", "case_control_statements_ends_group", "loop_control_statements_ends_group"]
        for n in rng.sample(hidden, 3) + rng.sample(sorted(set(names)), 4):
            if n == "case":
                g[n] = rng.choice(["upper", "lower"])
            elif n == "number_of_spaces":
                g[n] = rng.choice([1, 2])
            elif n == "style":
                continue
            else:
                g[n] = rng.choice(["yes", "no"]) if n not in hidden else "yes"
        return "jcl", [({"rule": {"global": g}}, rng.choice(["json", "yaml"]))]
    if kind == "yesno":
        # YAML 1.1 reads unquoted yes/no as booleans
        db = cfgpool.rule_db()
        rules = {}
        for rid in sorted(db):
            for opt, default in db[rid]["options"].items():
                if opt in cfgpool.YESNO and rng.random() < 0.3:
                    rules.setdefault(rid, {})[opt] = rng.choice([True, False])
        return "jcl", [({"rule": rules}, "yaml")]
    raise ValueError(kind)


def _write(d, stack):
    import yaml

    paths = []
    for i, (cfg, fmt) in enumerate(stack):
        p = os.path.join(d, "s%d.%s" % (i, "yaml" if fmt.startswith("yaml") else fmt))
        with open(p, "w") as fh:
            if fmt == "json":
                json.dump(cfg, fh)
            elif fmt == "yaml_keep_order":
                yaml.safe_dump(cfg, fh, sort_keys=False)
            else:
                yaml.safe_dump(cfg, fh)
        paths.append(p)
    return paths


def _behaviour(style, paths, files):
    """violations (all phases) and fixed text per sample file under a configuration."""
    from vsg import config, exceptions

    a = vsgapi.cla(style=style, configuration=list(paths))
    oConfig = config.New(a)
    out = []
    for f in files:
        lines = vsgapi.read_lines(os.path.join(vsgapi.REPO, f))
        try:
            oFile, oRules = vsgapi.build(lines, a, oConfig, filename=f)
        except exceptions.ClassifyError:
            out.append(None)
            continue
        oRules.check_rules(bAllPhases=True)
        v = vsgapi.violations_of(oRules)
        sev = sorted((o.unique_id, o.severity.name) for o in oRules.rules if o.violations)
        oFile2, oRules2 = vsgapi.build(lines, a, oConfig, filename=f)
        try:
            oRules2.fix()
            t = monitors.snap(oFile2)
        except harness.CpuTimeout:
            raise
        except Exception as e:
            t = "EXC:" + type(e).__name__
        out.append({"violations": v, "severities": sev, "fixed": t})
    return out


def run_case(case):
    rng = random.Random(harness.stable_hash("c17", json.dumps(case, sort_keys=True)))
    d = os.path.join(vsgapi.scratch(), "c17_%d" % harness.stable_hash(json.dumps(case, sort_keys=True)))
    os.makedirs(d, exist_ok=True)
    cwd = os.getcwd()
    try:
        os.chdir(d)
        style, stack = _stack(case["cfg"], rng)
        paths = _write(d, stack)
        base = (["--style", style] if style else []) + (["-c"] + paths if paths else [])
        V = []
        tag = case["cfg"]["kind"]
        if case.get("rc_rule"):
            rid = case["rc_rule"]
            rc, so, se = vsgapi.run_cli(base + ["-rc", rid], cwd=d)
            if "Traceback" in se:
                return {"violations": [("rc-traceback:%s" % tag, {"trace": se[-400:]})], "kind": tag}
            try:
                frag = json.loads(so)
            except Exception:
                return {"violations": [("rc-output-unreadable:%s" % tag, {"out": so[:200]})], "kind": tag}
            p = os.path.join(d, "frag.json")
            extra = {}
            for cfg, _ in stack:
                if "severity" in cfg:
                    extra["severity"] = cfg["severity"]
            with open(p, "w") as fh:
                json.dump(dict(frag, **extra), fh)
            rc2, so2, se2 = vsgapi.run_cli(["-c", p, "-rc", rid], cwd=d)
            ok = False
            try:
                ok = json.loads(so2)["rule"][rid] == frag["rule"][rid]
            except Exception:
                pass
            if not ok:
                V.append(("rc-fragment-does-not-reproduce-itself:%s" % tag, {"rule": rid, "first": so[:300], "second": (so2 + se2)[:300]}))
            return {"violations": V, "kind": tag, "rc": 1}
        rc1, so1, se1 = vsgapi.run_cli(base + ["-oc", "oc1.json"], cwd=d)
        if not os.path.exists("oc1.json"):
            return {"violations": [("oc-not-written:%s" % tag, {"rc": rc1, "err": (so1 + se1)[-400:]})], "kind": tag}
        rc2, so2, se2 = vsgapi.run_cli(["-c", "oc1.json", "-oc", "oc2.json"], cwd=d)
        if not os.path.exists("oc2.json"):
            cause = "traceback" if "Traceback" in se2 else "error"
            return {"violations": [("emitted-configuration-cannot-be-read-back:%s:%s" % (tag, cause), {"rc": rc2, "err": (so2 + se2)[-500:]})], "kind": tag}
        with open("oc1.json") as fh:
            t1 = fh.read()
        with open("oc2.json") as fh:
            t2 = fh.read()
        if t1 != t2:
            j1, j2 = json.loads(t1), json.loads(t2)
            where = []
            for sec in sorted(set(j1) | set(j2)):
                if j1.get(sec) != j2.get(sec):
                    if sec == "rule":
                        for rid in sorted(set(j1["rule"]) | set(j2["rule"])):
                            if j1["rule"].get(rid) != j2["rule"].get(rid):
                                a1, a2 = j1["rule"].get(rid) or {}, j2["rule"].get(rid) or {}
                                for k in sorted(set(a1) | set(a2)):
                                    if a1.get(k) != a2.get(k):
                                        where.append(("rule", rid, k, a1.get(k), a2.get(k)))
                    else:
                        where.append((sec,))
            first = where[0] if where else ("text",)
            key = "option:" + first[2] if first[0] == "rule" else "section:" + first[0]
            V.append(("oc-of-oc-differs:%s:%s" % (tag, key), {"first": first, "n": len(where)}))
        # behaviour
        files = case["files"]
        b0 = _behaviour(style, paths, files)
        b1 = _behaviour(None, [os.path.join(d, "oc1.json")], files)
        ncmp = 0
        for f, x, y in zip(files, b0, b1):
            if x is None or y is None:
                continue
            ncmp += 1
            if x["violations"] != y["violations"]:
                d1 = [v for v in x["violations"] if v not in y["violations"]][:2]
                d2 = [v for v in y["violations"] if v not in x["violations"]][:2]
                rid = (d1 or d2)[0][0]
                V.append(("violations-differ-under-emitted-configuration:%s" % tag, {"file": f, "rule": rid, "only_original": d1, "only_emitted": d2}))
                break
            if x["severities"] != y["severities"]:
                V.append(("severities-differ-under-emitted-configuration:%s" % tag, {"file": f}))
                break
            if x["fixed"] != y["fixed"]:
                V.append(("fixed-text-differs-under-emitted-configuration:%s" % tag, {"file": f}))
                break
        return {"violations": V, "kind": tag, "files_compared": ncmp, "oc_bytes": len(t1)}
    finally:
        os.chdir(cwd)
        shutil.rmtree(d, ignore_errors=True)


def _cases(tier, seed):
    rng = random.Random(seed)
    corpus = vsgapi.corpus()
    small = [f for f in corpus if os.path.getsize(os.path.join(vsgapi.REPO, f)) < 8000]
    specs = [{"kind": "pool", "name": n} for n in cfgpool.POOL]
    nrc = 10 if tier == "quick" else 60
    specs += [{"kind": "rc", "idx": i} for i in harness.sample(rng, range(200), nrc)]
    specs += [{"kind": "severity"}, {"kind": "severity", "style": None}, {"kind": "indent"}, {"kind": "pragma"}, {"kind": "yesno"}, {"kind": "yesno"}]
    specs += [{"kind": "global_opts", "n": i} for i in range(4 if tier == "quick" else 30)]
    pragma_files = [f for f in corpus if "pragma" in f.lower()]
    for f in corpus:
        if len(pragma_files) > 60:
            break
        try:
            with open(os.path.join(vsgapi.REPO, f), errors="replace") as fh:
                t = fh.read()
            if "translate_off" in t or "vhdl_comp_off" in t or "RTL_SYNTHESIS" in t:
                pragma_files.append(f)
        except OSError:
            pass
    pragma_files = sorted(set(pragma_files))
    pspecs = [{"kind": "pragma_reordered", "order": o} for o in (["single", "open", "close"], ["close", "single", "open"], ["single", "close", "open"])]
    cases = []
    nf = 6 if tier == "quick" else 25
    import re as _re

    align_files = [f for f in small if _re.search(r"rule_(4\d\d|02\d)_test_input", f)]
    for s in specs:
        pool_files = align_files if s["kind"] == "global_opts" and align_files else small
        cases.append({"cfg": s, "files": rng.sample(pool_files, min(len(pool_files), nf * (3 if s["kind"] == "global_opts" else 1))), "salt": rng.randrange(1 << 20)})
    for s in pspecs + [{"kind": "pragma"}]:
        cases.append({"cfg": s, "files": rng.sample(pragma_files, min(len(pragma_files), nf + 4)) if pragma_files else rng.sample(small, nf), "salt": rng.randrange(1 << 20)})
    specs = specs + pspecs
    ids = sorted(cfgpool.rule_db())
    for i in range(12 if tier == "quick" else 120):
        cases.append({"cfg": rng.choice(specs), "rc_rule": rng.choice(ids), "files": [], "salt": rng.randrange(1 << 20)})
    return cases


def main(tier):
    t0 = time.time()
    seed = harness.seed()
    cases = _cases(tier, seed)
    results = harness.run_cases("props.c17", cases, cpu=900, wall=2400)
    V = harness.Verdict(PROP)
    stats = {"round_trips": 0, "rc_fragments": 0, "files_compared": 0, "by_kind": {}}
    nontriv = set()
    for c, r in zip(cases, results):
        st = r.get("status", "ok")
        if st != "ok":
            V.note_inconclusive("%s %s" % (st, (str(r.get("detail")) + str(r.get("trace", ""))[-300:])[:400]))
            continue
        stats["by_kind"][r["kind"]] = stats["by_kind"].get(r["kind"], 0) + 1
        if r.get("rc"):
            stats["rc_fragments"] += 1
        else:
            stats["round_trips"] += 1
            stats["files_compared"] += r.get("files_compared", 0)
        nontriv.add(json.dumps(c["cfg"], sort_keys=True) + str(c.get("rc_rule")))
        for key, det in r["violations"]:
            V.violation(key, c, det)
    if stats["round_trips"] < 10 or stats["files_compared"] < 40:
        V.note_inconclusive("too little observed: %s" % stats)
    rc = V.finish()
    harness.write_evidence(
        PROP,
        tier,
        "exploration",
        {
            "evaluations": len(cases),
            "distinct_nontrivial": len(nontriv),
            "rule": "one evaluation = one (style, configuration stack) round-tripped through -oc twice by the real CLI and compared on sampled inputs in-process, or one -rc fragment fed back; distinct by configuration spec",
            "samples": cases[:2] + cases[-2:],
            "counters": stats,
            "known_findings_hit": sorted(V.known_hit),
            "inconclusive": V.inconclusive[:10],
        },
        time.time() - t0,
        len(V.unknown),
        assumptions=["byte-wise comparison of the two emitted files", "behaviour = all-phases violations (rule, line, solution), severity names and fixed text"],
    )
    return rc


def replay(path):
    with open(path) as f:
        d = json.load(f)
    res = run_case(d["case"])
    print(json.dumps(res, indent=1, default=str)[:4000])
    vsgapi.cleanup_scratch()
    if res.get("violations"):
        print("VIOLATION property=%s replay=%s" % (PROP, path))
        return 1
    return 0
