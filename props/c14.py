"""C14 — exit status and every report format tell the same story.

Differential observation over projections of one run of the real CLI: for each file set and
configuration the CLI is run once per output format (vsg / syntastic / summary), each time with
--json, --junit and --quality_report; every artefact is parsed back.  Oracle: the (file, rule, line,
solution) sets of the vsg table, syntastic lines, JSON and quality report are equal; JUnit holds
exactly the error-type subset; printed totals and per-severity counts equal the rows listed;
summary counts equal them and OK/ERROR matches the error-type violations of that file; the exit
status is 0 exactly when no error-type violation is reported and no file failed to parse/configure.
File sets mix clean, warning-only, erroneous and unparsable files; severities are built-in and
user-defined of both types; gated and -ap; one or several jobs.
"""
import json
import os
import random
import re
import shutil
import time
import xml.etree.ElementTree as ET

from lib import fixrun, harness, transforms, vsgapi

PROP = "C14"

SEV_TYPES = {"Error": "error", "Warning": "warning", "Todo": "error", "Future": "warning", "Blocker": "error"}


def _make_config(rng, mode):
    from lib import cfgpool

    db = cfgpool.rule_db()
    ids = sorted(db)
    cfgs = []
    names = ["Error", "Warning"]
    if mode in ("user", "user_only_error"):
        cfgs.append({"severity": {"Todo": {"type": "error"}, "Future": {"type": "warning"}, "Blocker": {"type": "error"}}})
        names += ["Todo", "Future", "Blocker"]
    rules = {}
    if mode == "warn_all":
        rules["global"] = {"severity": "Warning"}
    elif mode == "user_only_error":
        # every rule is either a user-defined error-type severity or a warning: no violation is *named* Error
        for rid in ids:
            rules[rid] = {"severity": rng.choice(["Todo", "Blocker", "Warning", "Future"])}
    elif mode != "plain":
        for rid in rng.sample(ids, len(ids) // 2):
            rules[rid] = {"severity": rng.choice(names)}
    if rules:
        cfgs.append({"rule": rules})
    return cfgs


def _parse_vsg(so):
    files = []
    cur = None
    lines = so.split("\n")
    i = 0
    while i < len(lines):
        ln = lines[i]
        if ln.startswith("File:  ") and i > 0 and set(lines[i - 1]) == {"="}:
            cur = {"file": ln[7:], "rows": [], "sev": {}, "total": None, "phase": None, "rules_checked": None}
            files.append(cur)
        elif cur is not None:
            m = re.match(r"Phase (\d) of 7", ln)
            if m:
                cur["phase"] = int(m.group(1))
            m = re.match(r"Total Violations:\s+(\d+)", ln)
            if m:
                cur["total"] = int(m.group(1))
            m = re.match(r"Total Rules Checked:\s+(\d+)", ln)
            if m:
                cur["rules_checked"] = int(m.group(1))
            m = re.match(r"  (\S+)\s+:\s+(\d+)$", ln)
            if m and "|" not in ln:
                cur["sev"][m.group(1)] = int(m.group(2))
            parts = ln.split(" | ")
            if len(parts) >= 4 and parts[0].startswith("  ") and parts[2].strip().isdigit():
                cur["rows"].append((parts[0].strip(), int(parts[2].strip()), " | ".join(parts[3:]).strip(), parts[1].strip()))
        i += 1
    return files


def _parse_syntastic(so):
    rows = []
    for ln in so.split("\n"):
        m = re.match(r"(ERROR|WARNING): (.*?)\((\d+)\)([a-z0-9_]+_\d\d\d) -- (.*)$", ln)
        if m:
            rows.append((m.group(2), m.group(4), int(m.group(3)), m.group(5).strip(), m.group(1)))
    return rows


def _parse_summary(text):
    out = []
    for ln in text.split("\n"):
        m = re.match(r"File: (.*?) (OK|ERROR) \((\d+) rules checked\)(.*)$", ln)
        if m:
            sev = dict((a, int(b)) for a, b in re.findall(r"\[(\S+): (\d+)\]", m.group(4)))
            out.append({"file": m.group(1), "status": m.group(2), "sev": sev})
    return out


def _parse_junit(path):
    out = {}
    root = ET.parse(path).getroot()
    suites = [root] if root.tag == "testsuite" else list(root.iter("testsuite"))
    for s in suites:
        for tc in s.iter("testcase"):
            rows = []
            raw = []
            for fl in tc.iter("failure"):
                for ln in (fl.text or "").split("\n"):
                    ln = ln.strip()
                    if not ln:
                        continue
                    raw.append(ln)
                    m = re.match(r"([a-z0-9_]+_\d\d\d): (\d+) : (.*)$", ln)
                    if m:
                        rows.append((m.group(1), int(m.group(2)), m.group(3).strip()))
            out[tc.get("name")] = {"rows": rows, "raw": raw}
    return out


def run_case(case):
    rng = random.Random(harness.stable_hash("c14", json.dumps(case, sort_keys=True)))
    d = os.path.join(vsgapi.scratch(), "c14_%d" % harness.stable_hash(json.dumps(case, sort_keys=True)))
    os.makedirs(d, exist_ok=True)
    try:
        names = []
        broken = set()
        for i, spec in enumerate(case["files"]):
            text = "\n".join(vsgapi.read_lines(os.path.join(vsgapi.REPO, spec["file"])))
            if spec.get("fixfirst"):
                a, oc = fixrun.get_config("jcl")
                try:
                    f, r = vsgapi.build(text.split("\n"), a, oc)
                    r.fix()
                    text = vsgapi.text_of(f)
                except Exception:
                    pass
            if spec.get("break"):
                t2 = transforms.break_text(text, spec["break"], spec.get("k", 0))
                if t2 is not None:
                    text = t2
            nm = "f%d_%s.vhd" % (i, "x")
            with open(os.path.join(d, nm), "w") as fh:
                fh.write(text + "\n")
            names.append(nm)
        cfgs = _make_config(rng, case["sev"])
        cfgpaths = []
        for j, c in enumerate(cfgs):
            p = os.path.join(d, "cfg%d.json" % j)
            with open(p, "w") as fh:
                json.dump(c, fh)
            cfgpaths.append(p)
        base = ["-f"] + names + ["-p", str(case.get("jobs", 1)), "--style", "jcl"]
        if cfgpaths:
            base += ["-c"] + cfgpaths
        if case.get("ap"):
            base += ["-ap"]
        runs = {}
        for fmt in ("vsg", "syntastic", "summary"):
            args = base + ["-of", fmt, "--json", "o_%s.json" % fmt, "--junit", "o_%s.xml" % fmt, "--quality_report", "q_%s.json" % fmt]
            rc, so, se = vsgapi.run_cli(args, cwd=d)
            run = {"rc": rc, "stdout": so, "stderr": se}
            for k, fn in (("json", "o_%s.json" % fmt), ("quality", "q_%s.json" % fmt)):
                p = os.path.join(d, fn)
                if os.path.exists(p):
                    try:
                        with open(p) as fh:
                            run[k] = json.load(fh)
                    except Exception as e:
                        run[k + "_error"] = repr(e)[:100]
            p = os.path.join(d, "o_%s.xml" % fmt)
            if os.path.exists(p):
                try:
                    run["junit"] = _parse_junit(p)
                except Exception as e:
                    run["junit_error"] = repr(e)[:100]
            runs[fmt] = run
        return {"analysis": analyse(case, names, runs)}
    finally:
        shutil.rmtree(d, ignore_errors=True)


def analyse(case, names, runs):
    """Pure function of the artefacts: returns dict(violations=[(key, detail)], stats)."""
    V = []
    stats = {"files": len(names), "rows": 0, "error_rows": 0, "warning_rows": 0, "processing_errors": 0}
    for fmt, run in runs.items():
        if "Traceback" in run["stderr"]:
            return {"violations": [], "stats": stats, "traceback": run["stderr"][-600:]}
    # JSON is the same whatever the output format
    j = runs["vsg"].get("json")
    for fmt in ("syntastic", "summary"):
        if runs[fmt].get("json") != j:
            V.append(("json-differs-between-output-formats:%s" % fmt, {}))
    if j is None:
        V.append(("json-missing", {}))
        return {"violations": V, "stats": stats}
    jfiles = {e.get("file_path"): e for e in j.get("files", []) if e}
    jrows = {}
    sev_of = {}
    for fp, e in jfiles.items():
        jrows[fp] = sorted((v["rule"], v["linenumber"], (v["solution"] or "None").strip()) for v in e.get("violations", []))
        for v in e.get("violations", []):
            sev_of[(fp, v["rule"])] = v["severity"]
    # processing errors
    perr = set()
    for ln in runs["vsg"]["stderr"].split("\n"):
        m = re.match(r"Error while processing (\S+?): ", ln)
        if m:
            perr.add(m.group(1))
    stats["processing_errors"] = len(perr)
    processed = [n for n in names if n in jfiles]
    # command-line order
    if [e.get("file_path") for e in j.get("files", []) if e] != names[: len(jfiles)]:
        V.append(("json-order-differs-from-command-line", {"json": list(jfiles), "cli": names}))
    # vsg table
    vfiles = {f["file"]: f for f in _parse_vsg(runs["vsg"]["stdout"])}
    any_error = False
    for n in processed:
        if n in perr:
            continue
        vf = vfiles.get(n)
        if vf is None:
            V.append(("vsg-table:file-block-missing", {"file": n}))
            continue
        vrows = sorted((r[0], r[1], r[2]) for r in vf["rows"])
        stats["rows"] += len(vrows)
        if vrows != jrows[n]:
            V.append(("vsg-table-vs-json:rows-differ", {"file": n, "only_table": [r for r in vrows if r not in jrows[n]][:2], "only_json": [r for r in jrows[n] if r not in vrows][:2]}))
        if vf["total"] != len(vf["rows"]):
            V.append(("vsg-table:total-differs-from-rows", {"file": n, "total": vf["total"], "rows": len(vf["rows"])}))
        cnt = {}
        for r in vf["rows"]:
            cnt[r[3]] = cnt.get(r[3], 0) + 1
        for name, c in vf["sev"].items():
            if cnt.get(name, 0) != c:
                V.append(("vsg-table:severity-count-differs-from-rows", {"file": n, "severity": name, "printed": c, "rows": cnt.get(name, 0)}))
        for name in cnt:
            if name not in vf["sev"]:
                V.append(("vsg-table:severity-not-in-stats", {"file": n, "severity": name}))
        for r in vf["rows"]:
            if sev_of.get((n, r[0])) != r[3]:
                V.append(("vsg-table-vs-json:severity-name-differs", {"file": n, "rule": r[0], "table": r[3], "json": sev_of.get((n, r[0]))}))
                break
        err_rows = [r for r in vf["rows"] if SEV_TYPES.get(r[3]) == "error"]
        stats["error_rows"] += len(err_rows)
        stats["warning_rows"] += len(vf["rows"]) - len(err_rows)
        if err_rows:
            any_error = True
        # junit
        ju = runs["vsg"].get("junit", {}).get(n)
        if ju is None:
            V.append(("junit:testcase-missing", {"file": n}))
        else:
            jr = sorted(ju["rows"])
            exp = sorted((r[0], r[1], r[2]) for r in err_rows)
            if jr != exp:
                kind = "has-warning-type-violations" if any(x not in exp for x in jr) else "misses-error-type-violations"
                V.append(("junit:%s" % kind, {"file": n, "junit": jr[:3], "expected": exp[:3], "n": [len(jr), len(exp)]}))
        # syntastic
        srows = sorted((r[1], r[2], r[3]) for r in _parse_syntastic(runs["syntastic"]["stdout"]) if r[0] == n)
        if srows != jrows[n]:
            V.append(("syntastic-vs-json:rows-differ", {"file": n, "n": [len(srows), len(jrows[n])]}))
        for r in _parse_syntastic(runs["syntastic"]["stdout"]):
            if r[0] == n:
                t = SEV_TYPES.get(sev_of.get((n, r[1])))
                if t and r[4] != t.upper():
                    V.append(("syntastic:label-differs-from-severity-type", {"file": n, "rule": r[1], "label": r[4], "type": t}))
                    break
        # summary
        summ = [s for s in _parse_summary(runs["summary"]["stdout"] + "\n" + runs["summary"]["stderr"]) if s["file"] == n]
        if not summ:
            V.append(("summary:line-missing", {"file": n}))
        else:
            s = summ[0]
            for name, c in s["sev"].items():
                if cnt.get(name, 0) != c and runs["vsg"]["rc"] is not None:
                    V.append(("summary:severity-count-differs-from-table", {"file": n, "severity": name, "summary": c, "table": cnt.get(name, 0)}))
            want = "ERROR" if err_rows else "OK"
            if s["status"] != want:
                named_error = any(r[3] == "Error" for r in err_rows)
                V.append(("summary:status-%s-but-%s-expected%s" % (s["status"], want, "" if named_error else ":only-user-defined-error-severities"), {"file": n, "error_rows": [r[:2] for r in err_rows[:2]]}))
    # quality report
    q = runs["vsg"].get("quality")
    if q is None:
        V.append(("quality-report-missing", {}))
    else:
        qrows = {}
        for e in q:
            fp = e["location"]["path"]
            rule, _, sol = e["description"].partition(" :: ")
            qrows.setdefault(fp, []).append((rule, e["location"]["lines"]["begin"], sol.strip()))
        for n in processed:
            if sorted(qrows.get(n, [])) != jrows[n]:
                V.append(("quality-vs-json:rows-differ", {"file": n, "n": [len(qrows.get(n, [])), len(jrows[n])]}))
        fps = [e["fingerprint"] for e in q]
        if len(set(fps)) != len(fps):
            V.append(("quality:duplicate-fingerprints", {}))
    # exit status
    expect_rc = 1 if (any_error or perr) else 0
    for fmt, run in runs.items():
        if run["rc"] != expect_rc:
            V.append(("exit-status:%d-but-%d-expected:%s" % (run["rc"], expect_rc, "processing-error" if perr and not any_error else "violations"), {"format": fmt, "any_error": any_error, "processing_errors": sorted(perr)}))
            break
    # every file given was either processed or reported as failed
    for n in names:
        if n not in jfiles and n not in perr:
            V.append(("file-neither-reported-nor-failed", {"file": n}))
            break
    return {"violations": [(k, d) for k, d in V][:8], "stats": stats}


def _cases(tier, seed):
    rng = random.Random(seed)
    corpus = vsgapi.corpus()
    small = [f for f in corpus if os.path.getsize(os.path.join(vsgapi.REPO, f)) < 6000]
    n = 44 if tier == "quick" else 500
    cases = []
    for i in range(n):
        k = rng.choice([1, 2, 3, 4])
        files = []
        for _ in range(k):
            spec = {"file": rng.choice(small)}
            r = rng.random()
            if r < 0.25:
                spec["fixfirst"] = True
            elif r < 0.4:
                spec["break"] = rng.choice(["swap", "delete", "paren"])  # truncated files can hang the parser (C19)
                spec["k"] = rng.randrange(3)
            files.append(spec)
        cases.append({"files": files, "sev": rng.choice(["plain", "mixed", "user", "user", "warn_all", "user_only_error"]), "ap": rng.random() < 0.5, "jobs": rng.choice([1, 1, 2, 4])})
    return cases


def main(tier):
    t0 = time.time()
    seed = harness.seed()
    cases = _cases(tier, seed)
    results = harness.run_cases("props.c14", cases, cpu=600, wall=1800)
    V = harness.Verdict(PROP)
    stats = {"runs": 0, "files": 0, "rows": 0, "error_rows": 0, "warning_rows": 0, "processing_errors": 0, "tracebacks(C19)": 0}
    nontriv = set()
    for c, r in zip(cases, results):
        st = r.get("status", "ok")
        if st != "ok":
            V.note_inconclusive("%s %s" % (st, (str(r.get("detail")) + str(r.get("trace", ""))[-300:])[:400]))
            continue
        a = r["analysis"]
        if a.get("traceback"):
            stats["tracebacks(C19)"] += 1
            continue
        stats["runs"] += 3
        for k, v in a["stats"].items():
            stats[k] += v
        if a["stats"]["rows"] > 0:
            nontriv.add(json.dumps(c, sort_keys=True))
        for key, det in a["violations"]:
            V.violation(key, c, det)
    if stats["rows"] < 200 or stats["warning_rows"] < 10 or stats["error_rows"] < 50:
        V.note_inconclusive("too little observed: %s" % stats)
    rc = V.finish()
    harness.write_evidence(
        PROP,
        tier,
        "exploration",
        {
            "evaluations": len(cases),
            "distinct_nontrivial": len(nontriv),
            "rule": "one evaluation = one file set x severity configuration x (-ap | gated) x jobs, run through the real CLI once per output format with JSON + JUnit + quality report; non-trivial = at least one violation row was cross-checked; distinct by case description",
            "samples": cases[:3],
            "counters": stats,
            "known_findings_hit": sorted(V.known_hit),
            "inconclusive": V.inconclusive[:10],
        },
        time.time() - t0,
        len(V.unknown),
        assumptions=["severity type of a name is taken from the configuration the check itself wrote", "artefact parsers in props/c14.py"],
    )
    return rc


def replay(path):
    with open(path) as f:
        d = json.load(f)
    res = run_case(d["case"])
    print(json.dumps(res, indent=1, default=str)[:4000])
    vsgapi.cleanup_scratch()
    if res["analysis"].get("violations"):
        print("VIOLATION property=%s replay=%s" % (PROP, path))
        return 1
    return 0
