"""C02 — comments, pragmas and preprocessor lines survive fixing verbatim.

Same event stream as C01 with comments() from the independent lexer: per rule application the
sequence of comments / pragmas / preprocessor lines is unchanged (exact modulo trailing blanks;
modulo all blanks for the rules documented to normalise comment whitespace); the rules documented
to remove comments may only delete (never alter, reorder, duplicate) them.  Chain check: no change
outside a monitored application.  The workload puts comments at sampled / every line end."""
from lib import fixmon

PROP = "C02"


def run_case(case):
    return fixmon.run(case, {PROP})


def main(tier):
    return fixmon.drive(
        PROP,
        "props.c02",
        tier,
        9500,
        40000,
        rule_text='one evaluation per (input, comment-placing variant, configuration) monitored fix run; non-trivial = input has comments, lexers agree, at least one rule changed the text; distinct by case description',
        assumptions=['independent lexer defines comments / pragmas / preprocessor lines', 'rules allowed to delete comments are identified by base class (remove_comments_from_end_of_lines_bounded_by_tokens, multiline_structure family)'],
        min_nontrivial=200,
        universe_kw={'kinds': ('comment', 'allcomment', 'comment', 'split', 'join'), 'p_variant': 0.8},
    )


def replay(path):
    return fixmon.replay(PROP, path)
