"""C03 — each phase only makes the kind of change it is documented to make.

(a) exhaustive: docs/*_rules.rst icons vs. live rule metadata (phase, group, fixable, default
disable, severity) for every non-deprecated rule; (b) per rule application inside full fix runs
(lib/fixmon.eval_c03): effect within the documented class (whitespace / blank_line / indent /
alignment: nothing but blanks and line breaks; case: letter case only, line lengths and literals
untouched; naming, unfixable, fixable:false, warning severity: no change at all; disabled: never
run; late structure rules: code untouched).
"""
from lib import effects, fixmon, harness, vsgapi

PROP = "C03"
GROUP_ICONS = {"whitespace", "blank_line", "indent", "alignment", "case", "naming", "structure", "length"}


def docs_vs_metadata():
    doc = effects.doc_classes()
    a, c = vsgapi.make_config()
    f, r = vsgapi.build([""], a, c, configure=False)
    mism = []
    n = 0
    undocumented = []
    for o in r.rules:
        if o.deprecated:
            continue
        d = doc.get(o.unique_id)
        if d is None:
            undocumented.append(o.unique_id)
            continue
        if d.get("moved"):
            continue
        n += 1
        ic = d["icons"]
        if d["phase"] != o.phase:
            mism.append((o.unique_id, "phase", d["phase"], o.phase))
        g = set(x.split("::")[0] for x in o.groups)
        if (ic & GROUP_ICONS) != g:
            mism.append((o.unique_id, "group", sorted(ic & GROUP_ICONS), sorted(g)))
        if ("unfixable" in ic) != (not o.fixable):
            mism.append((o.unique_id, "fixable", "unfixable" in ic, o.fixable))
        if ("disabled" in ic) != bool(o.disable):
            mism.append((o.unique_id, "disable", "disabled" in ic, o.disable))
        sev = "warning" if "warning" in ic else "error"
        if sev != o.severity.type:
            mism.append((o.unique_id, "severity", sev, o.severity.type))
    return n, mism, undocumented


def run_case(case):
    return fixmon.run(case, {PROP})


_extra = {}


def _post(V, agg, stats):
    n, mism, undocumented = docs_vs_metadata()
    _extra["docs_vs_metadata"] = {"rules_compared": n, "mismatches": len(mism), "undocumented_rules": undocumented[:10], "exhaustive": True}
    if n < 800:
        V.note_inconclusive("only %d documented rules could be compared with their objects" % n)
    for rid, attr, d, o in mism:
        V.violation("docs-vs-metadata:%s:%s" % (rid, attr), {"rule": rid, "attribute": attr}, {"documented": d, "object": o})
    for rid in undocumented:
        V.violation("docs-vs-metadata:%s:undocumented" % rid, {"rule": rid}, {})


def main(tier):
    return fixmon.drive(
        PROP,
        "props.c03",
        tier,
        9500,
        40000,
        rule_text="one evaluation per monitored fix run from the finite universe; non-trivial = at least one rule changed the text (lexers agree); per-class application counts in monitor_totals.class_counts; plus the exhaustive docs-vs-metadata comparison (docs_vs_metadata)",
        assumptions=["documented class of a rule = icon line in docs/*_rules.rst parsed at run time", "independent lexer for lexeme kinds"],
        min_nontrivial=200,
        post=_post,
        extra_evidence=lambda cases, results: dict(_extra),
    )


def replay(path):
    import json

    with open(path) as f:
        d = json.load(f)
    if "attribute" in d["case"] or ("rule" in d["case"] and "file" not in d["case"] and "gen" not in d["case"] and "text" not in d["case"]):
        n, mism, und = docs_vs_metadata()
        hit = [m for m in mism if m[0] == d["case"]["rule"]] or [u for u in und if u == d["case"]["rule"]]
        print(hit)
        if hit:
            print("VIOLATION property=%s replay=%s" % (PROP, path))
            return 1
        return 0
    return fixmon.replay(PROP, path)
