"""C07 — a rule's fix touches exactly the lines that rule reported.

Per application of every rule documented as whitespace / indent / alignment / case (phases 2, 4,
5, 6; structure rules excluded) inside full fix runs: OLD lines, R = line numbers of the
violations the same fix() handed to update(), NEW lines.  Oracle: same line count,
{i : OLD[i] != NEW[i]} == R, every r within the file."""
from lib import fixmon

PROP = "C07"


def run_case(case):
    return fixmon.run(case, {PROP})


def main(tier):
    return fixmon.drive(
        PROP,
        "props.c07",
        tier,
        9500,
        40000,
        rule_text='one evaluation per monitored fix run; non-trivial = at least one application of a line-local rule with violations was observed; applications counted in monitor_totals.applications',
        assumptions=['line = text between carriage_return tokens of the in-memory model, as get_lines() prints it'],
        min_nontrivial=200,
        universe_kw={},
    )


def replay(path):
    return fixmon.replay(PROP, path)
