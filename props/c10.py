"""C10 — a rule that has just fixed a file has nothing left to fix.

Inside full fix runs, immediately after each rule.fix() that repaired something: analyse again
(V2), fix again, analyse again (V3) on the live model, then restore a deep copy so the run is not
perturbed.  Oracle: the second fix changes nothing and V3 == V2 (what is left is what the rule
cannot repair)."""
from lib import fixmon

PROP = "C10"


def run_case(case):
    return fixmon.run(case, {PROP})


def main(tier):
    return fixmon.drive(
        PROP,
        "props.c10",
        tier,
        8800,
        30000,
        rule_text='one evaluation per monitored fix run; non-trivial = at least one re-fix experiment ran; experiments counted in monitor_totals.n.experiments',
        assumptions=['deep copy of the token list restores the model exactly'],
        min_nontrivial=200,
        universe_kw={},
    )


def replay(path):
    return fixmon.replay(PROP, path)
