"""Worker used by tools/sweep.py: all fix-run monitors on one case, returns keys only."""
import os

from lib import fixmon

WANT = set(os.environ.get("SWEEP_PROPS", ",".join(fixmon.FIXRUN_PROPS)).split(","))


def run_case(case):
    r = fixmon.run(case, WANT)
    out = {"status": r.get("status", "ok")}
    if out["status"] == "hang":
        out["keys"] = {"C19": [["fix:hang", {"trace": r.get("trace", "")[-400:]}]]}
        return out
    if out["status"] == "parse_crash":
        out["keys"] = {"C19": [["parse:%s:%s" % (r["exc"], r["frame"]), {"trace": r["trace"][-500:]}]]}
        return out
    if "props" not in r:
        return out
    keys = {}
    for p, d in r["props"].items():
        if d.get("violations"):
            keys[p] = [[v["key"], v["detail"]] for v in d["violations"][:60]]
    out["keys"] = keys
    out["nontrivial"] = [p for p, d in r["props"].items() if d.get("nontrivial")]
    return out
