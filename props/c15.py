"""C15 — a file's result does not depend on jobs, order, neighbours or input channel.

(a) differential over executions of the real CLI: a list F of small files (clean, erroneous,
    unparsable, with pragmas), sampled permutations, -p 1/2/4/16, check and --fix; per file the stdout
    block, JSON entry, JUnit testcase, exit contribution and fixed bytes must equal those of the
    solo `-p 1` run, outputs in command-line order; --stdin equals by-name modulo the name.
(b) state invariant at a quiescent hook: what a pool worker does — the real apply_rules() called for
    a sequence of files in one process; between files a deep digest of the module-level state of
    every vsg.* module (dicts, lists, sets, objects, class attributes), of the shared configuration
    object and of every rule/token class must be unchanged (baseline after a warm-up rule_list()).
"""
import json
import os
import random
import re
import shutil
import sys
import time
import types

from lib import fixrun, harness, transforms, vsgapi
from props import c14

PROP = "C15"


# ----------------------------------------------------------------------------- (b) state digest


def _rep(o, depth=0, seen=None):
    if seen is None:
        seen = set()
    if isinstance(o, (str, int, float, bool, type(None), bytes)):
        return repr(o)
    if id(o) in seen:
        return "<cyc>"
    if depth > 6:
        return "<deep>"
    seen = seen | {id(o)}
    if isinstance(o, dict):
        return "{" + ",".join(sorted(_rep(k, depth + 1, seen) + ":" + _rep(v, depth + 1, seen) for k, v in o.items())) + "}"
    if isinstance(o, (list, tuple)):
        return "[" + ",".join(_rep(v, depth + 1, seen) for v in o) + "]"
    if isinstance(o, (set, frozenset)):
        return "s{" + ",".join(sorted(_rep(v, depth + 1, seen) for v in o)) + "}"
    if isinstance(o, (types.FunctionType, types.BuiltinFunctionType, types.ModuleType, type, types.MethodType)):
        return "<" + getattr(o, "__qualname__", str(type(o))) + ">"
    if hasattr(o, "pattern") and hasattr(o, "match"):
        return "re:" + str(o.pattern)
    if hasattr(o, "__dict__"):
        return type(o).__name__ + _rep(vars(o), depth + 1, seen)
    return "<" + type(o).__name__ + ">"


def state_digest(oConfig):
    st = {}
    for name, mod in list(sys.modules.items()):
        if not (name == "vsg" or name.startswith("vsg.")) or mod is None:
            continue
        for k, v in list(vars(mod).items()):
            if k.startswith("__"):
                continue
            if isinstance(v, (dict, list, set)):
                st[name + "." + k] = _rep(v)
            elif isinstance(v, type) and v.__module__ == name:
                st[name + "." + k + "<class>"] = _rep({a: b for a, b in vars(v).items() if not a.startswith("__") and not callable(b) and not isinstance(b, (staticmethod, classmethod, property))})
            elif not isinstance(v, (types.ModuleType, types.FunctionType, type, str, int, float, bool, bytes)) and hasattr(v, "__dict__"):
                st[name + "." + k + "<object>"] = _rep(v)
            elif isinstance(v, (str, int, float, bool)):
                st[name + "." + k] = repr(v)
    st["<oConfig>"] = _rep(oConfig)
    return st


def _materialise_files(d, specs):
    names = []
    for i, spec in enumerate(specs):
        text = "\n".join(vsgapi.read_lines(os.path.join(vsgapi.REPO, spec["file"])))
        if spec.get("break"):
            t2 = transforms.break_text(text, spec["break"], spec.get("k", 0))
            if t2 is not None:
                text = t2
        if spec.get("exotic"):
            # characters that some line-splitting primitives treat as line ends, placed INSIDE comments
            ch = {"ff": "\x0c", "vt": "\x0b", "fs": "\x1c", "nel": "\x85", "ls": "\u2028"}[spec["exotic"]]
            L = text.split("\n")
            for j in range(2, len(L), max(3, len(L) // 4)):
                L.insert(j, "-- page" + ch + "break end process;")
            text = "\n".join(L)
        nm = "f%d.vhd" % i
        with open(os.path.join(d, nm), "w") as fh:
            fh.write(text + "\n")
        names.append(nm)
    return names


def run_state_case(case):
    from vsg import apply_rules, config, rule_list, vhdlFile

    d = os.path.join(vsgapi.scratch(), "c15s_%d" % harness.stable_hash(json.dumps(case, sort_keys=True)))
    os.makedirs(d, exist_ok=True)
    cwd = os.getcwd()
    try:
        names = _materialise_files(d, case["files"])
        os.chdir(d)
        a = vsgapi.cla(style=case.get("style", "jcl"), fix=bool(case.get("fix")), json="o.json", junit="o.xml", filename=list(names))
        oConfig = config.New(a)
        # warm-up: rule modules are imported lazily by the first rule_list()
        rule_list.rule_list(vhdlFile.vhdlFile([""]), oConfig.severity_list)
        prev = state_digest(oConfig)
        leaks = []
        outcomes = []
        for i, nm in enumerate(names):
            try:
                res = apply_rules.apply_rules(a, oConfig, (i, nm))
                outcomes.append("status=%s" % bool(res[0]))
            except harness.CpuTimeout:
                raise
            except Exception as e:
                outcomes.append("EXC:" + type(e).__name__)
            cur = state_digest(oConfig)
            for k in sorted(set(cur) | set(prev)):
                if cur.get(k) != prev.get(k):
                    leaks.append({"path": k, "after_file": case["files"][i], "index": i, "before": (prev.get(k) or "")[:160], "after": (cur.get(k) or "")[:160]})
            prev = cur
        return {"mode": "state", "entries": len(prev), "leaks": leaks[:6], "n_leaks": len(leaks), "outcomes": outcomes}
    finally:
        os.chdir(cwd)
        shutil.rmtree(d, ignore_errors=True)


# ----------------------------------------------------------------------------- (a) CLI differential


def _blocks(so):
    """stdout of the vsg format split into per-file blocks keyed by file name."""
    out = {}
    order = []
    cur = None
    lines = so.split("\n")
    for i, ln in enumerate(lines):
        if ln.startswith("File:  ") and i > 0 and set(lines[i - 1]) == {"="}:
            cur = ln[7:]
            order.append(cur)
            out[cur] = []
        elif cur is not None and not (set(ln) == {"="} and i + 1 < len(lines) and lines[i + 1].startswith("File:  ")):
            out[cur].append(ln)
    return {k: "\n".join(v).strip() for k, v in out.items()}, order


def _run(d, names, jobs, fix, extra=()):
    args = ["-f"] + list(names) + ["-p", str(jobs), "--style", "jcl", "--json", "o.json", "--junit", "o.xml"] + list(extra)
    if fix:
        args.append("--fix")
    for fn in ("o.json", "o.xml"):
        if os.path.exists(os.path.join(d, fn)):
            os.remove(os.path.join(d, fn))
    rc, so, se = vsgapi.run_cli(args, cwd=d)
    res = {"rc": rc, "stdout": so, "stderr": se}
    try:
        with open(os.path.join(d, "o.json")) as fh:
            res["json"] = json.load(fh)
    except Exception:
        res["json"] = None
    try:
        res["junit"] = c14._parse_junit(os.path.join(d, "o.xml"))
    except Exception:
        res["junit"] = None
    return res


def _restore(d, names, orig):
    for n in names:
        with open(os.path.join(d, n), "w") as fh:
            fh.write(orig[n])


def run_cli_case(case):
    rng = random.Random(harness.stable_hash("c15", json.dumps(case, sort_keys=True)))
    d = os.path.join(vsgapi.scratch(), "c15c_%d" % harness.stable_hash(json.dumps(case, sort_keys=True)))
    os.makedirs(d, exist_ok=True)
    try:
        names = _materialise_files(d, case["files"])
        orig = {}
        for n in names:
            with open(os.path.join(d, n)) as fh:
                orig[n] = fh.read()
        fix = bool(case.get("fix"))
        solo = {}
        crashing = set()
        for n in names:
            _restore(d, names, orig)
            try:
                r = _run(d, [n], 1, fix)
            except Exception:  # timeout: a hang is C19's finding
                crashing.add(n)
                continue
            if "Traceback" in r["stderr"]:
                crashing.add(n)  # an unhandled exception is C19's finding; the file leaves this experiment
                continue
            blocks, _ = _blocks(r["stdout"])
            with open(os.path.join(d, n)) as fh:
                after = fh.read()
            errl = [x for x in r["stderr"].split("\n") if x.startswith("Error while processing")]
            solo[n] = {"rc": r["rc"], "block": blocks.get(n), "json": [e for e in (r["json"] or {}).get("files", []) if e and e.get("file_path") == n], "junit": (r["junit"] or {}).get(n), "after": after, "err": errl}
        V = []
        nbatch = 0
        for jobs, perm in case["batches"]:
            order = [names[i] for i in perm if names[i] not in crashing]
            if not order:
                continue
            _restore(d, names, orig)
            r = _run(d, order, jobs, fix)
            if "Traceback" in r["stderr"]:
                return {"mode": "cli", "traceback": r["stderr"][-500:]}
            nbatch += 1
            blocks, seen_order = _blocks(r["stdout"])
            tag = "jobs>1" if jobs > 1 else "jobs=1"
            if seen_order != [n for n in order if solo[n]["block"] is not None]:
                V.append(("stdout-order-differs-from-command-line:%s" % tag, {"order": order, "seen": seen_order}))
            jfiles = [e.get("file_path") for e in (r["json"] or {}).get("files", []) if e]
            if jfiles != order:
                V.append(("json-order-differs-from-command-line:%s" % tag, {"order": order, "json": jfiles}))
            exp_rc = 1 if any(solo[n]["rc"] for n in order) else 0
            if r["rc"] != exp_rc:
                V.append(("exit-status-differs-from-or-of-solo-runs:%s" % tag, {"rc": r["rc"], "solo": {n: solo[n]["rc"] for n in order}}))
            for n in order:
                if blocks.get(n) != solo[n]["block"]:
                    V.append(("stdout-block-differs-from-solo:%s" % tag, {"file": n, "spec": case["files"][names.index(n)], "order": order, "batch": (blocks.get(n) or "")[:300], "solo": (solo[n]["block"] or "")[:300]}))
                    break
                je = [e for e in (r["json"] or {}).get("files", []) if e and e.get("file_path") == n]
                if je != solo[n]["json"]:
                    V.append(("json-entry-differs-from-solo:%s" % tag, {"file": n, "order": order}))
                    break
                if (r["junit"] or {}).get(n) != solo[n]["junit"]:
                    V.append(("junit-testcase-differs-from-solo:%s" % tag, {"file": n, "order": order}))
                    break
                with open(os.path.join(d, n)) as fh:
                    after = fh.read()
                if after != solo[n]["after"]:
                    V.append(("fixed-bytes-differ-from-solo:%s" % tag, {"file": n, "order": order}))
                    break
            errl = [x for x in r["stderr"].split("\n") if x.startswith("Error while processing")]
            if sorted(errl) != sorted(x for n in order for x in solo[n]["err"]):
                V.append(("processing-error-messages-differ-from-solo:%s" % tag, {"batch": errl[:3]}))
        nstdin = 0
        if case.get("stdin") is not None and not fix and names[case["stdin"]] not in crashing:
            n = names[case["stdin"]]
            _restore(d, names, orig)
            rc, so, se = vsgapi.run_cli(["--stdin", "--style", "jcl", "-p", "1"], cwd=d, stdin=orig[n])
            if "Traceback" not in se:
                nstdin = 1
                blocks, _ = _blocks(so)
                b = blocks.get("stdin")
                if (b or "") != (solo[n]["block"] or ""):
                    V.append(("stdin-block-differs-from-by-name", {"file": n, "spec": case["files"][case["stdin"]], "stdin": (b or "")[:300], "solo": (solo[n]["block"] or "")[:300]}))
                if rc != solo[n]["rc"]:
                    V.append(("stdin-exit-status-differs-from-by-name", {"rc": rc, "solo": solo[n]["rc"]}))
        names = [n for n in names if n not in crashing]
        changed = sum(1 for n in names if solo[n]["after"] != orig[n])
        return {"mode": "cli", "violations": V[:6], "batches": nbatch, "files": len(names), "crashing(C19)": len(crashing), "stdin": nstdin, "files_changed_by_fix": changed, "files_with_violations": sum(1 for n in names if solo[n]["rc"]), "unparsable": sum(1 for n in names if solo[n]["err"])}
    finally:
        shutil.rmtree(d, ignore_errors=True)


def run_case(case):
    if case["mode"] == "state":
        return run_state_case(case)
    return run_cli_case(case)


def _cases(tier, seed):
    rng = random.Random(seed)
    corpus = vsgapi.corpus()
    small = [f for f in corpus if os.path.getsize(os.path.join(vsgapi.REPO, f)) < 5000]
    pragma = [f for f in corpus if "pragma" in f or "code_tags" in f]
    ncli = 26 if tier == "quick" else 260
    nstate = 40 if tier == "quick" else 400
    cases = []

    def fileset(k):
        fs = []
        for _ in range(k):
            spec = {"file": rng.choice(small if rng.random() < 0.85 or not pragma else pragma)}
            if rng.random() < 0.15:
                spec["break"] = rng.choice(["paren", "delete", "swap"])  # truncated files can hang the parser (C19 finding)
                spec["k"] = rng.randrange(3)
            elif rng.random() < 0.3:
                spec["exotic"] = rng.choice(["ff", "vt", "fs", "nel", "ls"])
            fs.append(spec)
        return fs

    for _ in range(ncli):
        k = rng.choice([3, 4, 5, 6])
        batches = []
        for jobs in rng.sample([1, 2, 4, 16], 3):
            perm = list(range(k))
            rng.shuffle(perm)
            batches.append([jobs, perm])
        fs = fileset(k)
        ex = [i for i, sp in enumerate(fs) if sp.get("exotic")]
        cases.append({"mode": "cli", "files": fs, "fix": rng.random() < 0.5, "batches": batches, "stdin": rng.choice(ex) if ex and rng.random() < 0.7 else rng.randrange(k)})
    for _ in range(nstate):
        cases.append({"mode": "state", "files": fileset(rng.choice([6, 8, 10])), "fix": rng.random() < 0.6, "style": rng.choice(["jcl", "jcl", "indent_only", None])})
    return cases


def main(tier):
    t0 = time.time()
    seed = harness.seed()
    cases = _cases(tier, seed)
    results = harness.run_cases("props.c15", cases, cpu=900, wall=2400)
    V = harness.Verdict(PROP)
    stats = {"cli_cases": 0, "batch_runs": 0, "stdin_runs": 0, "files": 0, "files_changed_by_fix": 0, "unparsable_files": 0, "state_cases": 0, "state_steps": 0, "state_entries_tracked": 0, "tracebacks(C19)": 0, "exceptions_in_apply_rules(C19)": 0}
    nontriv = set()
    for c, r in zip(cases, results):
        st = r.get("status", "ok")
        if st == "hang":
            stats["hangs(C19)"] = stats.get("hangs(C19)", 0) + 1  # a parser loop on a broken file is C19's finding
            continue
        if st != "ok":
            V.note_inconclusive("%s %s" % (st, (str(r.get("detail")) + str(r.get("trace", ""))[-300:])[:400]))
            continue
        if r["mode"] == "cli":
            if r.get("traceback"):
                stats["tracebacks(C19)"] += 1
                continue
            stats["cli_cases"] += 1
            stats["batch_runs"] += r["batches"]
            stats["stdin_runs"] += r["stdin"]
            stats["files"] += r["files"]
            stats["files_changed_by_fix"] += r["files_changed_by_fix"]
            stats["unparsable_files"] += r["unparsable"]
            if r["files_with_violations"] > 0:
                nontriv.add(json.dumps(c, sort_keys=True))
            for key, det in r["violations"]:
                V.violation(key, c, det)
        else:
            stats["state_cases"] += 1
            stats["state_steps"] += len(r["outcomes"])
            stats["state_entries_tracked"] = max(stats["state_entries_tracked"], r["entries"])
            stats["exceptions_in_apply_rules(C19)"] += sum(1 for o in r["outcomes"] if o.startswith("EXC"))
            nontriv.add(json.dumps(c, sort_keys=True))
            for lk in r["leaks"]:
                V.violation("state-leak:" + lk["path"], c, lk)
    if stats["batch_runs"] < 30 or stats["state_steps"] < 100 or stats["state_entries_tracked"] < 1000:
        V.note_inconclusive("too little observed: %s" % stats)
    rc = V.finish()
    harness.write_evidence(
        PROP,
        tier,
        "exploration",
        {
            "evaluations": len(cases),
            "distinct_nontrivial": len(nontriv),
            "rule": "cli case = file list x {fix|check} x 3 (jobs, permutation) batches + solo runs + one --stdin run, non-trivial when a file has violations; state case = one process handling 6-10 files through apply_rules with a state digest between files; distinct by case description",
            "samples": cases[:2] + cases[-1:],
            "counters": stats,
            "known_findings_hit": sorted(V.known_hit),
            "inconclusive": V.inconclusive[:10],
        },
        time.time() - t0,
        len(V.unknown),
        assumptions=["state digest covers module-level containers/objects/scalars and class attributes of every loaded vsg.* module plus the shared configuration object, to depth 6"],
    )
    return rc


def replay(path):
    with open(path) as f:
        d = json.load(f)
    res = run_case(d["case"])
    print(json.dumps(res, indent=1, default=str)[:4000])
    vsgapi.cleanup_scratch()
    if res.get("violations") or res.get("leaks"):
        print("VIOLATION property=%s replay=%s" % (PROP, path))
        return 1
    return 0
