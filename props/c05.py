"""C05 — token classification does not depend on layout, comments or letter case.

Differential observation of the real classifier: roles(parse(t(x))) == roles(parse(x)) on code
tokens for meaning-preserving re-layouts t built on the independent lexer.  A re-layout of an
accepted file that is rejected (ClassifyError or any other exception) is a violation.
"""
import json
import os
import random
import time

from lib import harness, transforms, vsgapi

PROP = "C05"


def _roles(lines):
    from vsg import parser
    from vsg.token import delimited_comment

    skip = (parser.whitespace, parser.carriage_return, parser.blank_line, parser.comment, delimited_comment.beginning, delimited_comment.text, delimited_comment.ending, parser.preprocessor)
    f = vsgapi.parse_only(lines)
    return [(vsgapi.token_class(t), t.get_value().lower()) for t in f.lAllObjects if not isinstance(t, skip) and t.get_value() != ""]


def _source(case):
    if "text" in case:
        return case["text"]
    if "gen" in case:
        from lib import gen_vhdl

        return gen_vhdl.generate(case["gen"])
    return "\n".join(vsgapi.read_lines(os.path.join(vsgapi.REPO, case["file"])))


def run_case(case):
    from vsg import exceptions

    text = _source(case)
    try:
        base = _roles(text.split("\n"))
    except exceptions.ClassifyError:
        return {"status": "rejected"}
    except Exception as e:
        return {"status": "base_crash", "detail": repr(e)[:200]}
    if not transforms.eligible(text):
        return {"status": "skip", "why": "not plain VHDL for the lexer (pragmas/preprocessor/code tags)"}
    out = []
    for chain in case["variants"]:
        t2 = transforms.apply_chain(text, chain)
        if t2 == text:
            out.append({"chain": chain, "r": "unchanged"})
            continue
        try:
            r2 = _roles(t2.split("\n"))
        except exceptions.ClassifyError as e:
            # known tokenizer weakness: the double quote inside the character literal '"' opens a string when
            # another double quote follows on the same line (only when the input itself did not have that)
            def _dq(tt):
                return any(("'\"'" in ln and '"' in ln.split("'\"'", 1)[1]) for ln in tt.split("\n"))

            cause = "charlit-doublequote-then-string-on-one-line" if (_dq(t2) and not _dq(text)) else None
            out.append({"chain": chain, "r": "rejected", "msg": str(e).strip().replace("\n", " | ")[:300], "cause": cause})
            continue
        except Exception as e:
            out.append({"chain": chain, "r": "crash", "msg": repr(e)[:300]})
            continue
        if [v for _, v in base] != [v for _, v in r2]:
            out.append({"chain": chain, "r": "values_differ"})
            continue
        d = [(i, a, b) for i, (a, b) in enumerate(zip(base, r2)) if a[0] != b[0]]
        if d:
            i, a, b = d[0]
            out.append({"chain": chain, "r": "roles_differ", "n": len(d), "index": i, "value": a[1], "before": a[0], "after": b[0], "context": [v for _, v in base[max(0, i - 4) : i + 3]]})
        else:
            out.append({"chain": chain, "r": "same", "n": len(base)})
    return {"variants": out, "ntok": len(base)}


def _cases(tier, seed):
    rng = random.Random(seed)
    corpus = vsgapi.corpus()
    K = 3 if tier == "quick" else 6
    cases = []
    for f in corpus:
        vs = [[[kind, rng.randrange(K)]] for kind in transforms.KINDS + transforms.EXTRA_KINDS]
        if os.environ.get("VERIF_ALLK"):  # development sweep: the whole variant universe
            vs = [[[kind, k]] for kind in transforms.KINDS + transforms.EXTRA_KINDS for k in range(K)]
        # two- and three-step chains are fixed per file (finite universe): the seed picks which ones run
        crng = random.Random(harness.stable_hash("c05chains", f))
        chains = [[[crng.choice(transforms.KINDS), crng.randrange(3)] for _ in range(crng.choice([2, 3]))] for _ in range(8)]
        if os.environ.get("VERIF_ALLK"):
            vs.extend(chains if tier != "quick" else chains[:2])
        elif tier != "quick":
            vs.extend(rng.sample(chains, 4))
        else:
            vs.append(chains[rng.randrange(2)])
        cases.append({"file": f, "variants": vs})
    try:
        from lib import gen_vhdl

        ng = 150 if tier == "quick" else 600
        G = 400 if tier == "quick" else 1000
        for g in (range(G) if os.environ.get("VERIF_ALLK") else harness.sample(rng, range(G), ng)):
            vs = [[[kind, rng.randrange(K)]] for kind in transforms.KINDS + transforms.EXTRA_KINDS]
            if os.environ.get("VERIF_ALLK"):
                vs = [[[kind, k]] for kind in transforms.KINDS + transforms.EXTRA_KINDS for k in range(K)]
            cases.append({"gen": g, "variants": vs})
    except ImportError:
        pass
    return cases


def judge(case, res, V, stats):
    st = res.get("status", "ok")
    if st in ("harness_error", "worker_died", "inconclusive"):
        V.note_inconclusive("%s %s" % (st, str(res.get("detail"))[:200]))
        return
    if st == "hang":
        V.violation("hang", case, res)
        return
    if st != "ok":
        stats[st] = stats.get(st, 0) + 1
        return
    for v in res["variants"]:
        r = v["r"]
        kinds = "+".join(k for k, _ in v["chain"])
        stats[r] = stats.get(r, 0) + 1
        one = dict(case)
        one["variants"] = [v["chain"]]
        if r == "rejected":
            import re as _re

            m = _re.search(r"while parsing (\w+) .*?Expecting : (\S+)", v.get("msg", ""))
            what = ("%s:expecting-%s" % (m.group(1), m.group(2))) if m else "other"
            if v.get("cause"):
                what = v["cause"]
            V.violation(("rejected:%s" % what) if v.get("cause") else ("rejected:%s:%s" % (kinds, what)), one, v)
        elif r == "crash":
            V.violation("crash:" + kinds, one, v)
        elif r == "roles_differ":
            V.violation("roles:%s:%s->%s" % (kinds, v["before"], v["after"]), one, v)
        elif r == "values_differ":
            stats["transform_unsound"] = stats.get("transform_unsound", 0) + 1
        elif r == "same":
            stats.setdefault("_nontrivial", set()).add((case.get("file") or "gen%s" % case.get("gen"), json.dumps(v["chain"])))
            stats["tokens_compared"] = stats.get("tokens_compared", 0) + v["n"]


def main(tier):
    t0 = time.time()
    seed = harness.seed()
    cases = _cases(tier, seed)
    results = harness.run_cases("props.c05", cases, cpu=300, wall=1200)
    V = harness.Verdict(PROP)
    stats = {}
    for c, r in zip(cases, results):
        judge(c, r, V, stats)
    nontriv = stats.pop("_nontrivial", set())
    compared = len(nontriv) + sum(V.unknown[k]["count"] for k in V.unknown) + sum(d["count"] for d in V.known_hit.values())
    if compared < 2000:
        V.note_inconclusive("only %d variant comparisons reached the role oracle" % compared)
    if stats.get("transform_unsound", 0) > compared * 0.02:
        V.note_inconclusive("transform sanity failed on %d variants" % stats["transform_unsound"])
    rc = V.finish()
    samples = []
    for c, r in zip(cases, results):
        if r.get("status", "ok") == "ok" and r.get("variants"):
            samples.append({"case": c, "result": r["variants"][:3]})
            if len(samples) >= 3:
                break
    harness.write_evidence(
        PROP,
        tier,
        "exploration",
        {
            "evaluations": sum(len(c["variants"]) for c in cases),
            "distinct_nontrivial": len(nontriv),
            "rule": "one evaluation per (input, transform chain); non-trivial = the variant text differs from the input, VSG accepted both, the value sequences agree (transform sanity) and every code token's role was compared; distinct by (input, chain)",
            "samples": samples,
            "outcomes": {k: v for k, v in stats.items()},
            "transform_kinds": list(transforms.KINDS + transforms.EXTRA_KINDS),
            "known_findings_hit": sorted(V.known_hit),
            "inconclusive": V.inconclusive[:10],
        },
        time.time() - t0,
        len(V.unknown),
        assumptions=["the independent lexer decides where whitespace separates tokens and which lexemes are keywords/basic identifiers; variants whose lower-cased code-token values differ from the input's are discarded as unsound, never judged"],
    )
    return rc


def replay(path):
    with open(path) as f:
        d = json.load(f)
    res = run_case(d["case"])
    V = harness.Verdict(PROP)
    judge(d["case"], res, V, {})
    print(json.dumps(res, indent=1)[:3000])
    if V.unknown or V.known_hit:
        print("VIOLATION property=%s replay=%s" % (PROP, path))
        return 1
    return 0
