"""C09 — fixing converges: a second --fix changes nothing.

x1 = fix_c(x), x2 = fix_c(x1) on a fresh parse each time (as the CLI does).  Oracle: x2 == x1.  When it
is not, the run is iterated to at most 5 passes and classified (late convergence, cycle, still
changing); the per-application monitor of pass 2 names the first rule that changed the text
(lib/fixmon.eval_c09).  'Eventually constant' is restated as 'constant after at most 5 passes'.
"""
from lib import fixmon

PROP = "C09"


def run_case(case):
    return fixmon.run(case, {PROP})


def main(tier):
    return fixmon.drive(
        PROP,
        "props.c09",
        tier,
        8800,
        40000,
        rule_text="one evaluation per (input, variant, configuration): fix, re-parse, fix again (up to 5 passes when the second pass still changes the text); non-trivial = the second pass ran on an accepted first-pass output; distinct by case description",
        assumptions=["'eventually constant' restated as bounded progress: constant after at most 5 passes", "each pass parses the previous pass's text afresh under the same configuration object"],
        min_nontrivial=200,
    )


def replay(path):
    return fixmon.replay(PROP, path)
