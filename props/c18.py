"""C18 — the token index and every rule's region of interest mirror the token list.

Invariants asserted at hooks on the real objects during real fix + check runs:
 (a) at entry of every rule.analyze:  oTokenMap.dMap == process_tokens(lAllObjects).dMap;
 (b) every region of interest handed out (results of rule._get_tokens_of_interest and of every
     vhdlFile.get_* extraction method): lAllObjects[s : s+len] *is* (by identity, ignoring
     beginning_of_file) toi.lTokens, and iEndIndex == s+len;
 (c) at vhdlFile.update: every splice lies inside the list and, at the moment it is applied,
     removes only tokens that were in that violation's analysed region (recorded at add_violation)
     or that this same update call has just put there (VSG legitimately uses regions that share a
     boundary token); the list after the call equals the independent splice model;
 (d) after an update by a rule with remap False, the index is still exact (culprit attribution).
"""
import json
import time

from lib import fixrun, harness, monitors, vsgapi

PROP = "C18"


class Sink(monitors.Sink):
    def __init__(self):
        self.v = []  # (key, detail)
        self.n = {"map_checks": 0, "toi_checked": 0, "updates": 0, "nonempty_updates": 0, "remap_false_updates": 0}
        self.rules_seen = set()
        self.extractors = set()
        self.analysed = {}

    def _add(self, key, detail):
        if len(self.v) < 40:
            self.v.append((key, detail))

    def _map_ok(self, oFile):
        from vsg.token_map import process_tokens

        self.n["map_checks"] += 1
        return process_tokens(oFile.lAllObjects).dMap == oFile.oTokenMap.dMap

    def analyze_before(self, rule, oFile):
        if not self._map_ok(oFile):
            self._add("%s:stale-map-at-analyze" % rule.unique_id, {"rule": rule.unique_id})

    def toi(self, rule, oFile, name, result):
        from vsg import parser
        from vsg.vhdlFile.extract import tokens as ext

        rid = rule.unique_id if rule is not None else "<none>"
        self.rules_seen.add(rid)
        self.extractors.add(name)
        items = result if isinstance(result, list) else [result]
        L = oFile.lAllObjects
        for t in items:
            if not isinstance(t, ext.New):
                continue
            self.n["toi_checked"] += 1
            lt = [x for x in t.get_tokens() if not isinstance(x, parser.beginning_of_file)]
            s = t.get_start_index()
            who = rid if name == "_get_tokens_of_interest" else name
            if not isinstance(s, int):
                self._add("%s:start-not-int" % who, {"rule": rid, "via": name, "start": repr(s)})
                continue
            sl = L[s : s + len(lt)]
            if s < 0 or len(sl) != len(lt) or any(a is not b for a, b in zip(sl, lt)):
                self._add("%s:not-slice" % who, {"rule": rid, "via": name, "start": s, "toi": [x.get_value() for x in lt[:6]], "list_at_start": [x.get_value() for x in sl[:6]]})
                continue
            if t.iEndIndex != s + len(lt):
                self._add("%s:end-mismatch" % who, {"rule": rid, "via": name, "start": s, "end": t.iEndIndex, "len": len(lt)})

    def violation_added(self, rule, violation, accepted):
        if accepted:
            try:
                self.analysed[id(violation)] = (violation, set(id(t) for t in violation.oTokens.get_tokens()))
            except Exception:
                pass

    def fix_before(self, rule, oFile):
        self.analysed = {}

    def update_before(self, rule, oFile, lUpdates, bUpdateMap):
        from vsg import parser

        self.n["updates"] += 1
        L = oFile.lAllObjects
        model = list(L)
        rid = rule.unique_id if rule is not None else "<none>"
        ok = True
        inserted = set()
        for u in lUpdates[::-1]:
            s, e = u.oTokens.iStartIndex, u.oTokens.iEndIndex
            if not isinstance(s, int) or not isinstance(e, int) or s < 0 or e < s or e > len(model):
                self._add("%s:update-range-out-of-list" % rid, {"rule": rid, "start": repr(s), "end": repr(e), "len": len(model)})
                ok = False
                break
            rec = self.analysed.get(id(u))
            if rec is not None:
                allowed = rec[1]
                stray = [t for t in model[s:e] if id(t) not in allowed and id(t) not in inserted]
                self.n["splices_checked"] = self.n.get("splices_checked", 0) + 1
                if stray:
                    self._add("%s:overwrites-unanalysed-token" % rid, {"rule": rid, "start": s, "end": e, "stray": [t.get_value() for t in stray[:5]]})
            new = [x for x in u.get_tokens() if not isinstance(x, parser.beginning_of_file)]
            inserted.update(id(x) for x in new)
            model[s:e] = new
        return (rid, model if ok else None, len(lUpdates), bUpdateMap)

    def update_after(self, rule, oFile, lUpdates, bUpdateMap, ctx):
        rid, model, n, bUpdateMap = ctx
        if n:
            self.n["nonempty_updates"] += 1
        if model is not None:
            L = oFile.lAllObjects
            if len(L) != len(model) or any(a is not b for a, b in zip(L, model)):
                self._add("%s:splice-differs-from-model" % rid, {"rule": rid, "len_real": len(L), "len_model": len(model)})
        if n and not bUpdateMap:
            self.n["remap_false_updates"] += 1
            if not self._map_ok(oFile):
                self._add("%s:stale-map-after-remap-false-update" % rid, {"rule": rid})


def run_case(case):
    r = fixrun.setup(case)
    if isinstance(r, dict):
        return r
    oFile, oRules, a, oConfig = r
    sink = Sink()
    inst = monitors.Instrument(oFile, oRules, [sink], wrap_get=True)
    crash = None
    try:
        oRules.fix()
        oRules.clear_violations()
        oRules.check_rules(bAllPhases=True)
    except harness.CpuTimeout:
        raise
    except Exception as e:
        import traceback

        crash = {"exc": type(e).__name__, "frame": fixrun.vsg_frame(traceback.format_exc())}
    return {
        "violations": [{"key": k, "detail": d} for k, d in sink.v],
        "n": sink.n,
        "reach": dict(inst.reach),
        "rules": len(sink.rules_seen),
        "extractors": sorted(sink.extractors),
        "crash": crash,
    }


def main(tier):
    t0 = time.time()
    seed = harness.seed()
    cases = fixrun.universe(tier, seed, 500, 8000)
    results = harness.run_cases("props.c18", cases, cpu=300, wall=1500)
    V = harness.Verdict(PROP)
    tot = {}
    ok_cases = set()
    extractors = set()
    crashes = 0
    for c, r in zip(cases, results):
        st = r.get("status", "ok")
        if st in ("harness_error", "worker_died", "inconclusive", "hang"):
            V.note_inconclusive("%s %s %s" % (fixrun.case_name(c), st, str(r.get("detail"))[:200]))
            continue
        if st != "ok":
            tot[st] = tot.get(st, 0) + 1
            continue
        for k, v in r["n"].items():
            tot[k] = tot.get(k, 0) + v
        extractors.update(r["extractors"])
        if r.get("crash"):
            crashes += 1  # C19's business; the monitors still observed everything up to the crash
        if r["n"]["toi_checked"] > 0 and r["n"]["nonempty_updates"] > 0:
            ok_cases.add(fixrun.case_name(c))
        for v in r["violations"]:
            V.violation(v["key"], c, v["detail"])
    if tot.get("toi_checked", 0) < 10000 or tot.get("map_checks", 0) < 10000 or tot.get("nonempty_updates", 0) < 200:
        V.note_inconclusive("monitors reached too little: %s" % tot)
    rc = V.finish()
    harness.write_evidence(
        PROP,
        tier,
        "exploration",
        {
            "evaluations": len(cases),
            "distinct_nontrivial": len(ok_cases),
            "rule": "one evaluation per (input, variant, configuration) fix+check run; non-trivial = at least one region of interest was checked and at least one non-empty update was spliced; distinct by case description",
            "samples": [{"case": c, "counters": r.get("n")} for c, r in list(zip(cases, results))[:3]],
            "monitor_counters": tot,
            "extraction_methods_observed": sorted(extractors),
            "runs_ending_in_exception(C19)": crashes,
            "known_findings_hit": sorted(V.known_hit),
            "inconclusive": V.inconclusive[:10],
        },
        time.time() - t0,
        len(V.unknown),
        assumptions=["vsg.token_map.process_tokens over the current list is the definition of a correct index", "identity comparison of token objects"],
    )
    return rc


def replay(path):
    with open(path) as f:
        d = json.load(f)
    res = run_case(d["case"])
    print(json.dumps(res, indent=1, default=str)[:4000])
    if res.get("violations"):
        print("VIOLATION property=%s replay=%s" % (PROP, path))
        return 1
    return 0
