"""C18 — the token index and every rule's region of interest mirror the token list.

Invariants asserted at hooks on the real objects during real fix + check runs (lib/fixmon.C18Sink):
 (a) at entry of every rule.analyze: oTokenMap.dMap == process_tokens(lAllObjects).dMap;
 (b) every region handed out (rule._get_tokens_of_interest and every vhdlFile.get_* extraction
     method): lAllObjects[s:s+len] *is* (identity) toi.lTokens and iEndIndex == s+len;
 (c) at vhdlFile.update: every splice lies inside the list and removes only tokens that were in that
     violation's analysed region or that the same call has just put there; result equals the
     independent splice model;
 (d) after an update by a remap-False rule the index is still exact."""
from lib import fixmon

PROP = "C18"


def run_case(case):
    return fixmon.run(case, {PROP})


def main(tier):
    return fixmon.drive(
        PROP,
        "props.c18",
        tier,
        8800,
        30000,
        rule_text='one evaluation per monitored fix+check run; non-trivial = regions were checked and a non-empty update was spliced; counters in monitor_totals.n',
        assumptions=['vsg.token_map.process_tokens over the current list defines a correct index', 'identity comparison of token objects'],
        min_nontrivial=200,
        universe_kw={},
    )


def replay(path):
    return fixmon.replay(PROP, path)
