"""C06 — analysis is read-only, repeatable and rules do not interfere.

(a) invariant at a hook: around every rule.analyze() inside the real check_rules(), the observable
    state of the file (the token list by identity, every token's class and attributes, the token
    index) is unchanged; the non-callable class attributes of every rule class are the same before
    and after the whole check.  Any write is a channel through which one rule's analysis can
    influence another's.
(b) differential on the same real code, fresh objects each time: V(x,c) in normal order, on repeat
    (same objects, violations cleared), with the rule list shuffled (order inside each (phase,
    sub-phase) changes, sub-phase order does not) and with a random subset D disabled:
    repeat == normal == shuffled and V(c\\D) == V(c) minus the violations of D; text and roles are
    unchanged by checking.
"""
import json
import random
import time

from lib import fixrun, harness, monitors, vsgapi

PROP = "C06"


def _tok_state(t):
    d = t.__dict__
    return (id(t), t.__class__, {k: (list(v) if isinstance(v, list) else v) for k, v in d.items()})


def _file_state(oFile):
    return [_tok_state(t) for t in oFile.lAllObjects]


def _diff_state(b, a):
    if len(b) != len(a):
        return {"what": "list-length", "before": len(b), "after": len(a)}
    for x, y in zip(b, a):
        if x[0] != y[0]:
            return {"what": "list-identity"}
        if x[1] is not y[1]:
            return {"what": "token-class", "before": x[1].__name__, "after": y[1].__name__}
        if x[2] != y[2]:
            for k in set(x[2]) | set(y[2]):
                if x[2].get(k, "<absent>") != y[2].get(k, "<absent>"):
                    return {"what": "token-attribute", "attr": k, "before": repr(x[2].get(k, "<absent>"))[:80], "after": repr(y[2].get(k, "<absent>"))[:80], "token": repr(x[2].get("value"))[:40], "cls": x[1].__name__}
    return None


def _class_state(oRules):
    st = {}
    for o in oRules.rules:
        for c in type(o).__mro__:
            if c is object or c in st:
                continue
            st[c] = {k: repr(v)[:200] for k, v in vars(c).items() if not k.startswith("__") and not callable(v) and not isinstance(v, (staticmethod, classmethod, property))}
    return st


class StateSink(monitors.Sink):
    def __init__(self):
        self.v = []
        self.n = 0

    def analyze_before(self, rule, oFile):
        return (_file_state(oFile), dict(oFile.oTokenMap.dMap) if hasattr(oFile.oTokenMap, "dMap") else None, repr(oFile.oTokenMap.dMap))

    def analyze_after(self, rule, oFile, ctx):
        self.n += 1
        b, _, mrepr = ctx
        a = _file_state(oFile)
        d = _diff_state(b, a)
        if d and len(self.v) < 20:
            key = "%s:writes-%s%s" % (rule.unique_id, d["what"], (":" + d["attr"]) if "attr" in d else "")
            self.v.append({"key": key, "detail": dict(d, rule=rule.unique_id)})
        if repr(oFile.oTokenMap.dMap) != mrepr and len(self.v) < 20:
            self.v.append({"key": "%s:writes-token-index" % rule.unique_id, "detail": {"rule": rule.unique_id}})


def _V(oRules):
    d = {}
    for o in oRules.rules:
        if o.violations:
            d[o.unique_id] = sorted((v.get_line_number(), v.get_solution() or "") for v in o.violations)
    return d


def _roles(oFile):
    return [(t.__class__, t.get_value()) for t in oFile.lAllObjects]


def _dictdiff(a, b):
    ks = [k for k in sorted(set(a) | set(b)) if a.get(k) != b.get(k)]
    return [{"rule": k, "a": (a.get(k) or [])[:2], "b": (b.get(k) or [])[:2]} for k in ks[:3]], ks


def run_case(case):
    text = fixrun.materialise(case)
    r = fixrun.setup(case, text)
    if isinstance(r, dict):
        return r
    oFile, oRules, a, oConfig = r
    viol = []
    out = {"mode": case["mode"]}
    try:
        if case["mode"] == "state":
            sink = StateSink()
            cs0 = _class_state(oRules)
            monitors.Instrument(oFile, oRules, [sink])
            t0 = monitors.snap(oFile)
            oRules.check_rules(bAllPhases=True)
            viol.extend(sink.v)
            cs1 = _class_state(oRules)
            for c in cs0:
                if cs0[c] != cs1.get(c):
                    ks = [k for k in set(cs0[c]) | set(cs1[c]) if cs0[c].get(k) != cs1[c].get(k)]
                    viol.append({"key": "class-attribute-written:%s.%s" % (c.__module__.replace("vsg.", ""), ks[0]), "detail": {"class": c.__name__, "attrs": ks[:3]}})
            if monitors.snap(oFile) != t0:
                viol.append({"key": "text-changed-by-check", "detail": {}})
            out["analyze_observed"] = sink.n
        else:
            rng = random.Random(harness.stable_hash("c06", fixrun.case_name(case), case.get("salt", 0)))
            t0 = monitors.snap(oFile)
            roles0 = _roles(oFile)
            oRules.check_rules(bAllPhases=True)
            v0 = _V(oRules)
            if monitors.snap(oFile) != t0:
                viol.append({"key": "text-changed-by-check", "detail": {}})
            elif _roles(oFile) != roles0:
                viol.append({"key": "roles-changed-by-check", "detail": {}})
            # repeat on the same objects
            oRules.clear_violations()
            oRules.check_rules(bAllPhases=True)
            v0b = _V(oRules)
            if v0b != v0:
                d, ks = _dictdiff(v0, v0b)
                viol.append({"key": "%s:differs-on-repeat" % ks[0], "detail": d})
            # shuffled order, fresh objects
            f1, r1 = vsgapi.build(text.split("\n"), a, oConfig)
            rng.shuffle(r1.rules)
            r1.check_rules(bAllPhases=True)
            v1 = _V(r1)
            if v1 != v0:
                d, ks = _dictdiff(v0, v1)
                viol.append({"key": "%s:depends-on-analysis-order" % ks[0], "detail": d})
            # random subset disabled, fresh objects
            f2, r2 = vsgapi.build(text.split("\n"), a, oConfig)
            en = [o for o in r2.rules if not o.disable]
            frac = rng.choice([0.1, 0.33, 0.6])
            D = set(o.unique_id for o in rng.sample(en, int(len(en) * frac)))
            for o in r2.rules:
                if o.unique_id in D:
                    o.disable = True
            r2.check_rules(bAllPhases=True)
            v2 = _V(r2)
            exp = {k: v for k, v in v0.items() if k not in D}
            if v2 != exp:
                d, ks = _dictdiff(exp, v2)
                viol.append({"key": "%s:depends-on-which-rules-are-enabled" % ks[0], "detail": d})
            out["n_violations_reported"] = sum(len(v) for v in v0.values())
            out["n_rules_reporting"] = len(v0)
            out["disabled_subset"] = len(D)
    except harness.CpuTimeout:
        raise
    except Exception as e:
        import traceback

        return {"status": "crash", "detail": repr(e)[:200], "frame": fixrun.vsg_frame(traceback.format_exc())}
    out["violations"] = viol
    return out


def _cases(tier, seed):
    rng = random.Random(seed)
    base = fixrun.universe(tier, seed, 0, 0, full=True, gen=False)
    nstate = 160 if tier == "quick" else 1500
    ndiff = 1100 if tier == "quick" else 8000
    import os

    def small(c):
        try:
            return os.path.getsize(os.path.join(vsgapi.REPO, c["file"])) < 12000
        except OSError:
            return False

    cases = []
    for c in harness.sample(rng, [c for c in base if small(c)], nstate):
        c = dict(c)
        c["mode"] = "state"
        cases.append(c)
    commented = [c for c in base if c.get("variant") and c["variant"][0][0] in ("allcomment", "comment")]
    for c in harness.sample(rng, base, ndiff // 2) + harness.sample(rng, commented, ndiff - ndiff // 2):
        c = dict(c)
        c["mode"] = "diff"
        c["salt"] = rng.randrange(4)
        cases.append(c)
    return cases


def main(tier):
    t0 = time.time()
    seed = harness.seed()
    cases = _cases(tier, seed)
    results = harness.run_cases("props.c06", cases, cpu=600, wall=2400)
    V = harness.Verdict(PROP)
    stats = {"analyze_observed": 0, "state_cases": 0, "diff_cases": 0, "violations_compared": 0, "crash(C19)": 0}
    nontriv = set()
    for c, r in zip(cases, results):
        st = r.get("status", "ok")
        if st in ("harness_error", "worker_died", "inconclusive", "hang"):
            V.note_inconclusive("%s %s %s" % (fixrun.case_name(c), st, str(r.get("detail"))[:300]))
            continue
        if st == "crash":
            stats["crash(C19)"] += 1
            continue
        if st != "ok":
            stats[st] = stats.get(st, 0) + 1
            continue
        if r["mode"] == "state":
            stats["state_cases"] += 1
            stats["analyze_observed"] += r.get("analyze_observed", 0)
            nontriv.add("state|" + fixrun.case_name(c))
        else:
            stats["diff_cases"] += 1
            stats["violations_compared"] += r.get("n_violations_reported", 0)
            if r.get("n_violations_reported", 0) > 0:
                nontriv.add("diff|" + fixrun.case_name(c))
        for v in r["violations"]:
            V.violation(v["key"], c, v["detail"])
    if stats["analyze_observed"] < 20000 or stats["diff_cases"] < 100:
        V.note_inconclusive("too little observed: %s" % stats)
    rc = V.finish()
    harness.write_evidence(
        PROP,
        tier,
        "exploration",
        {
            "evaluations": len(cases),
            "distinct_nontrivial": len(nontriv),
            "rule": "state cases: full token-state snapshot around every rule.analyze of an all-phases check (every one is non-trivial); diff cases: normal / repeat / shuffled / subset-disabled reports compared, non-trivial when the file has at least one violation; distinct by case description",
            "samples": [{"case": c, "result": {k: v for k, v in r.items() if k != "violations"}} for c, r in list(zip(cases, results))[:2] + list(zip(cases, results))[-2:]],
            "counters": stats,
            "known_findings_hit": sorted(V.known_hit),
            "inconclusive": V.inconclusive[:10],
        },
        time.time() - t0,
        len(V.unknown),
        assumptions=["token state = identity, class and instance __dict__ of every token; class state = non-callable attributes of every class in each rule's MRO"],
    )
    return rc


def replay(path):
    with open(path) as f:
        d = json.load(f)
    res = run_case(d["case"])
    print(json.dumps(res, indent=1, default=str)[:4000])
    if res.get("violations"):
        print("VIOLATION property=%s replay=%s" % (PROP, path))
        return 1
    return 0
