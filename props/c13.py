"""C13 — phase gating, --all_phases, --fix_phase and skip_phase mean what they say.

Reference model over the observed events of the real rule_list:
 * gated report == { v in all-phases report : phase(v) <= p* }, p* = first phase holding a violation of
   an error-type rule (7 if none); warnings alone never stop the run; fresh objects for each run;
 * with skip set S: no violation and no fix() of a rule whose phase is in S;
 * with fix_phase N: no fix()/analyze() wrapper of a rule with phase > N is entered and the text equals
   the text a full run had when phase N ended (recorded from the same event stream);
 * configurations re-assign `phase` and demote rules to Warning so the model is not trivially phase 1.
In-process for volume; the real CLI (-ap, -fp, configuration skip_phase) for a sample.
"""
import json
import os
import random
import shutil
import time

from lib import cfgpool, effects, fixrun, harness, monitors, vsgapi

PROP = "C13"


def _tweak_config(case):
    """Pool entry + optional phase re-assignment / demotion, deterministic in the case."""
    style, dicts = cfgpool.pool_entry(case["cfg"])
    tw = case.get("tweak")
    if not tw:
        return style, dicts
    rng = random.Random(harness.stable_hash("c13tweak", tw))
    db = cfgpool.rule_db()
    ids = sorted(db)
    d = {}
    if tw.startswith("phase"):
        for rid in rng.sample(ids, 60):
            d[rid] = {"phase": rng.randrange(1, 8)}
    elif tw.startswith("warn"):
        for rid in ids:
            if db[rid]["phase"] in (1, 2) and rng.random() < 0.8:
                d[rid] = {"severity": "Warning"}
    elif tw.startswith("warnall"):
        d["global"] = {"severity": "Warning"}
    return style, list(dicts) + [{"rule": d}]


def _V(oRules):
    out = []
    for o in oRules.rules:
        for v in o.violations:
            out.append((o.phase, o.unique_id, v.get_line_number(), v.get_solution() or "", o.severity.type))
    return sorted(out, key=lambda x: (x[0], x[1], str(x[2]), x[3]))


class EnterSink(monitors.Sink):
    def __init__(self):
        self.fix_entered = []
        self.analyze_entered = []
        self.depth = 0

    def fix_before(self, rule, oFile):
        self.fix_entered.append((rule.unique_id, rule.phase))
        self.depth += 1

    def fix_after(self, rule, oFile, ctx):
        self.depth -= 1

    def analyze_before(self, rule, oFile):
        if self.depth == 0:
            self.analyze_entered.append((rule.unique_id, rule.phase))


def run_case(case):
    from vsg import exceptions

    text = fixrun.materialise(case)
    if text is None:
        return {"status": "skip"}
    style, dicts = _tweak_config(case)
    a, oConfig = vsgapi.make_config(style, dicts)
    lines = text.split("\n")
    viol = []
    out = {"mode": case["mode"]}
    try:
        try:
            f_ap, r_ap = vsgapi.build(lines, a, oConfig)
        except exceptions.ClassifyError:
            return {"status": "rejected"}
        if case["mode"] == "gate":
            skip = case.get("skip") or []
            r_ap.check_rules(bAllPhases=True, lSkipPhase=list(skip))
            v_all = _V(r_ap)
            f_g, r_g = vsgapi.build(lines, a, oConfig)
            r_g.check_rules(bAllPhases=False, lSkipPhase=list(skip))
            v_g = _V(r_g)
            err_phases = [v[0] for v in v_all if v[4] == "error"]
            pstar = min(err_phases) if err_phases else 7
            exp = [v for v in v_all if v[0] <= pstar]
            out.update({"pstar": pstar, "n_all": len(v_all), "n_gated": len(v_g), "skip": skip, "warn_only_phases_before_pstar": len({v[0] for v in v_all if v[0] < pstar})})
            if v_g != exp:
                extra = [v for v in v_g if v not in exp][:2]
                missing = [v for v in exp if v not in v_g][:2]
                cls = "gated-has-later-phases" if extra and not missing else "gated-misses-violations" if missing and not extra else "gated-differs"
                viol.append({"key": "gate:%s" % cls, "detail": {"pstar": pstar, "extra": extra, "missing": missing, "lastPhaseRan": r_g.lastPhaseRan}})
            if r_g.violations != bool(err_phases):
                viol.append({"key": "gate:exit-flag-disagrees-with-error-violations", "detail": {"flag": r_g.violations, "error_phases": sorted(set(err_phases))}})
            if r_ap.violations != bool(err_phases):
                viol.append({"key": "all-phases:exit-flag-disagrees-with-error-violations", "detail": {"flag": r_ap.violations, "error_phases": sorted(set(err_phases))}})
            if any(v[0] in skip for v in v_all) or any(v[0] in skip for v in v_g):
                viol.append({"key": "skip:violation-of-skipped-phase-reported", "detail": {"skip": skip}})
            # prefix property, stated directly
            if not all(v in v_all for v in v_g):
                viol.append({"key": "gate:gated-not-subset-of-all-phases", "detail": {}})
        elif case["mode"] == "fixreport":
            # what the real apply_rules prints after --fix [--fix_phase N] must be the gated prefix of a fresh
            # all-phases check of the file it wrote
            from vsg import apply_rules, config
            from props import c14

            d = os.path.join(vsgapi.scratch(), "c13fr_%d" % harness.stable_hash(json.dumps(case, sort_keys=True)))
            os.makedirs(d, exist_ok=True)
            try:
                target = os.path.join(d, "case.vhd")
                with open(target, "w") as fh:
                    fh.write(text + "\n")
                a2 = vsgapi.cla(**dict(vars(a), fix=True, fix_phase=case.get("N", 7), skip_phase=[], filename=[target]))
                fExit, tc, dj, so, se, stop = apply_rules.apply_rules(a2, oConfig, (0, target))
                if se and "Error while processing" in se:
                    return {"status": "rejected"}
                blocks = c14._parse_vsg(so or "")
                rows = blocks[0]["rows"] if blocks else []
                # the rule objects of that very run are not reachable from here; a fresh rule_list under the same
                # configuration gives every rule's configured phase and severity type
                f2, r2 = vsgapi.build(lines, a, oConfig, filename=target)
                ph = {o.unique_id: (o.phase, o.severity.type) for o in r2.rules}
                printed = [(ph.get(r[0], (None, None))[0], r[0], r[1], ph.get(r[0], (None, None))[1]) for r in rows]
                err = [p[0] for p in printed if p[3] == "error" and p[0] is not None]
                gate = min(err) if err else 7
                beyond = [p for p in printed if p[0] is not None and p[0] > gate]
                out.update({"gate": gate, "n_report": len(rows), "warning_rows": sum(1 for p in printed if p[3] != "error")})
                # (whether the rows equal a fresh check of the written file is C08's question, not asked here)
                if beyond:
                    viol.append({"key": "report-after-fix:lists-violations-of-phases-beyond-the-gate", "detail": {"gate": gate, "beyond": beyond[:3]}})
                if bool(fExit) != bool(err):
                    viol.append({"key": "report-after-fix:exit-flag-disagrees-with-printed-error-rows", "detail": {"flag": bool(fExit), "error_phases": sorted(set(err))}})
            finally:
                shutil.rmtree(d, ignore_errors=True)
        else:  # fixphase
            N = case["N"]
            skip = case.get("skip") or []
            f_n, r_n = vsgapi.build(lines, a, oConfig)
            ent = EnterSink()
            monitors.Instrument(f_n, r_n, [ent])
            r_n.fix(N, list(skip))
            t_n = monitors.snap(f_n)
            # full run with event stream
            eff = effects.EffectSink()
            monitors.Instrument(f_ap, r_ap, [eff])
            eff.start(f_ap)
            r_ap.fix(7, list(skip))
            eff.finish(f_ap)
            live_phase = {o.unique_id: o.phase for o in r_ap.rules}
            t_at_N = eff.initial
            for ev in eff.events:
                ph = ev["phase"]
                if ev["kind"] != "nonrule" and ph is not None and ph > N:
                    break
                if ev["kind"] == "nonrule" and N < 1:
                    break
                t_at_N = ev["after"]
            late = [x for x in ent.fix_entered + ent.analyze_entered if x[1] > N]
            skipped_run = [x for x in ent.fix_entered + ent.analyze_entered if x[1] in skip]
            out.update({"N": N, "skip": skip, "fix_entered": len(ent.fix_entered), "full_run_changed": eff.initial != eff.last, "changed_up_to_N": t_at_N != eff.initial})
            if late:
                viol.append({"key": "fix_phase:rule-of-later-phase-applied", "detail": {"N": N, "rules": late[:4]}})
            if skipped_run:
                viol.append({"key": "skip:rule-of-skipped-phase-applied", "detail": {"skip": skip, "rules": skipped_run[:4]}})
            if t_n != t_at_N:
                la, lb = t_at_N.split("\n"), t_n.split("\n")
                d = [(i + 1, x, y) for i, (x, y) in enumerate(zip(la, lb)) if x != y][:2]
                viol.append({"key": "fix_phase:text-differs-from-full-run-truncated", "detail": {"N": N, "diff": d, "len": [len(la), len(lb)]}})
        if case.get("cli"):
            out["cli"] = _cli(case, text, style, dicts)
    except harness.CpuTimeout:
        raise
    except Exception as e:
        import traceback

        return {"status": "crash", "detail": repr(e)[:200], "frame": fixrun.vsg_frame(traceback.format_exc())}
    out["violations"] = viol
    return out


def _parse_stdout(so):
    """(rule, line, solution) rows of the standard vsg output table, and the phase line."""
    rows = []
    phase = None
    for ln in so.splitlines():
        if ln.startswith("Phase "):
            phase = ln
        parts = [p.strip() for p in ln.split("|")]
        if len(parts) >= 4 and parts[0] and parts[0] not in ("Rule",) and not set(parts[0]) <= set("-+") and parts[2].strip().isdigit():
            rows.append((parts[0], int(parts[2]), parts[3]))
    return rows, phase


def _cli(case, text, style, dicts):
    d = os.path.join(vsgapi.scratch(), "c13cli_%d" % harness.stable_hash(json.dumps(case, sort_keys=True)))
    os.makedirs(d, exist_ok=True)
    try:
        target = os.path.join(d, "case.vhd")
        with open(target, "w") as f:
            f.write(text + "\n")
        base = ["-f", target, "-p", "1"]
        if style:
            base += ["--style", style]
        cfgs = [vsgapi.write_config_file(x) for x in dicts]
        if case.get("skip"):
            cfgs.append(vsgapi.write_config_file({"skip_phase": list(case["skip"])}))
        if cfgs:
            base += ["-c"] + cfgs
        res = {}
        if case["mode"] == "gate":
            rc1, so1, se1 = vsgapi.run_cli(base, cwd=d)
            rc2, so2, se2 = vsgapi.run_cli(base + ["-ap"], cwd=d)
            res = {"rc_gated": rc1, "rc_ap": rc2, "gated": _parse_stdout(so1)[0], "ap": _parse_stdout(so2)[0], "tb": ("Traceback" in se1 or "Traceback" in se2)}
        else:
            rc1, so1, se1 = vsgapi.run_cli(base + ["--fix", "-fp", str(case["N"])], cwd=d)
            with open(target) as f:
                res = {"rc": rc1, "disk": f.read(), "tb": "Traceback" in se1}
        return res
    finally:
        shutil.rmtree(d, ignore_errors=True)


def _cases(tier, seed):
    rng = random.Random(seed)
    base = fixrun.universe(tier, seed, 0, 0, full=True, gen=False)
    ng = 700 if tier == "quick" else 6000
    nf = 250 if tier == "quick" else 2500
    ncli = 16 if tier == "quick" else 120
    cases = []
    tweaks = [None, None, "phase0", "phase1", "phase2", "warn0", "warn1"]
    for c in harness.sample(rng, base, ng):
        c = dict(c, mode="gate", tweak=rng.choice(tweaks))
        if rng.random() < 0.3:
            c["skip"] = sorted(rng.sample(range(1, 8), rng.choice([1, 2])))
        cases.append(c)
    for c in harness.sample(rng, base, nf):
        c = dict(c, mode="fixphase", N=rng.randrange(1, 8), tweak=rng.choice([None, None, "phase0", "phase1"]))
        if rng.random() < 0.25:
            c["skip"] = sorted(rng.sample(range(1, 8), 1))
        cases.append(c)
    for c in rng.sample(cases, ncli):
        c["cli"] = True
    nr = 300 if tier == "quick" else 3000
    for c in harness.sample(rng, base, nr):
        cases.append(dict(c, mode="fixreport", N=rng.choice([7, 7, 7, 5, 3]), tweak=rng.choice(["warn0", "warn1", "warn0", None, "phase0"])))
    return cases


def judge_cli(c, r, V):
    cli = r.get("cli")
    if not cli or cli.get("tb"):
        return 0
    if c["mode"] == "gate":
        g, ap = cli["gated"], cli["ap"]
        if not all(tuple(x) in [tuple(y) for y in ap] for x in g):
            V.violation("cli:gated-rows-not-subset-of-ap-rows", c, {"gated": g[:3], "ap": ap[:3]})
        if r.get("n_all") is not None and len(ap) != r["n_all"]:
            V.violation("cli:-ap-row-count-differs-from-in-process", c, {"cli": len(ap), "inproc": r["n_all"]})
        if r.get("n_gated") is not None and len(g) != r["n_gated"]:
            V.violation("cli:gated-row-count-differs-from-in-process", c, {"cli": len(g), "inproc": r["n_gated"]})
    return 1


def main(tier):
    t0 = time.time()
    seed = harness.seed()
    cases = _cases(tier, seed)
    results = harness.run_cases("props.c13", cases, cpu=600, wall=2400)
    V = harness.Verdict(PROP)
    stats = {"gate": 0, "fixphase": 0, "fixreport": 0, "fixreport_with_warnings_beyond_gate": 0, "gate_stopped_early": 0, "gate_with_warning_only_phase": 0, "with_skip": 0, "with_phase_tweak": 0, "fixphase_truncating": 0, "cli": 0, "crash(C19)": 0}
    nontriv = set()
    for c, r in zip(cases, results):
        st = r.get("status", "ok")
        if st in ("harness_error", "worker_died", "inconclusive", "hang"):
            V.note_inconclusive("%s %s %s" % (fixrun.case_name(c), st, str(r.get("detail"))[:300]))
            continue
        if st == "crash":
            stats["crash(C19)"] += 1
            continue
        if st != "ok":
            stats[st] = stats.get(st, 0) + 1
            continue
        stats[r["mode"]] += 1
        if c.get("skip"):
            stats["with_skip"] += 1
        if c.get("tweak"):
            stats["with_phase_tweak"] += 1
        name = "%s|%s|%s|%s|%s" % (fixrun.case_name(c), c["mode"], c.get("tweak"), c.get("skip"), c.get("N"))
        if r["mode"] == "fixreport":
            if r.get("warning_rows"):
                stats["fixreport_with_warnings_beyond_gate"] += 1
            if r.get("n_report"):
                nontriv.add(name)
        elif r["mode"] == "gate":
            if r["n_all"] > r["n_gated"]:
                stats["gate_stopped_early"] += 1
                nontriv.add(name)
            elif r["n_all"] > 0:
                nontriv.add(name)
        else:
            if r.get("full_run_changed"):
                nontriv.add(name)
            if r.get("full_run_changed") and r["N"] < 7:
                stats["fixphase_truncating"] += 1
        for v in r["violations"]:
            V.violation(v["key"], c, v["detail"])
        stats["cli"] += judge_cli(c, r, V)
    if stats["gate_stopped_early"] < 30 or stats["fixphase"] < 50:
        V.note_inconclusive("too little observed: %s" % stats)
    rc = V.finish()
    harness.write_evidence(
        PROP,
        tier,
        "exploration",
        {
            "evaluations": len(cases),
            "distinct_nontrivial": len(nontriv),
            "rule": "gate cases: gated vs all-phases report on fresh objects (non-trivial when the file has violations); fixphase cases: --fix_phase N run vs the full run's event stream (non-trivial when the full run changed the text); distinct by (input, variant, config, tweak, skip set, N)",
            "samples": [{"case": c, "result": {k: v for k, v in r.items() if k not in ("violations", "cli")}} for c, r in list(zip(cases, results))[:2] + list(zip(cases, results))[-2:]],
            "counters": stats,
            "known_findings_hit": sorted(V.known_hit),
            "inconclusive": V.inconclusive[:10],
        },
        time.time() - t0,
        len(V.unknown),
        assumptions=["a rule's phase is the value of its `phase` attribute after configuration", "error/warning type is rule.severity.type"],
    )
    return rc


def replay(path):
    with open(path) as f:
        d = json.load(f)
    res = run_case(d["case"])
    V = harness.Verdict(PROP)
    n = len(res.get("violations", []))
    judge_cli(d["case"], res, V)
    print(json.dumps({k: v for k, v in res.items() if k != "cli"}, indent=1, default=str)[:4000])
    vsgapi.cleanup_scratch()
    if n or V.unknown or V.known_hit:
        print("VIOLATION property=%s replay=%s" % (PROP, path))
        return 1
    return 0
