"""C19 — every accepted file can be checked and fixed without a crash or a hang.

(a) totality on accepted inputs: full fix runs and all-phases check runs of the real rule_list
    under the configuration pool (incl. all rules enabled: every rule meets every other rule's
    fixture in phase context); thorough tier additionally applies every rule in isolation to the
    raw parse.  Any exception is a violation (witness: traceback, innermost vsg frame); CPU time
    beyond the budget (load independent, ~100x the observed cost) is a hang.
(b) rejected inputs: broken variants of corpus files (truncation, token deletion / duplication /
    swap, unbalanced parenthesis) through the real apply_rules() and the real CLI: the outcome
    must be 'accepted' or a ClassifyError diagnostic naming a line inside the file, exit status 1,
    and the next file on the command line is still processed and reported.  Never a traceback.
"""
import json
import os
import random
import re
import shutil
import time
import traceback

from lib import fixmon, fixrun, harness, transforms, vsgapi

PROP = "C19"
CPU_BUDGET = 300
BROKEN_CPU = 20  # parsing a corpus file costs < 0.5 s CPU; a parser loop that does not advance is a hang


def _norm(key):
    """Mechanism = (accepted | broken input, exception type or hang, innermost vsg frame); how the run was
    driven (fix / check / isolation / apply_rules / CLI) is not part of it."""
    for a, b in (("fix:", "accepted:"), ("check:", "accepted:"), ("isolation:", "accepted:"), ("parse:", "accepted:"), ("broken:parse:", "broken:"), ("broken:rules:", "broken:"), ("broken-cli:", "broken:")):
        if key.startswith(a):
            return b + key[len(a):]
    return key


def _key(prefix, tb):
    return _norm("%s:%s" % (prefix, fixrun.vsg_frame(tb)))


def run_case(case):
    kind = case["kind"]
    if kind == "fix":
        r = fixmon.run(case, {"C19"})
        st = r.get("status", "ok")
        if st == "hang":
            return {"kind": kind, "violations": [("fix:hang", {"trace": r.get("trace", "")[-800:]})]}
        if st == "parse_crash":
            return {"kind": kind, "violations": [("parse:%s:%s" % (r["exc"], r["frame"]), {"trace": r["trace"]})]}
        if st != "ok":
            return {"kind": kind, "status2": st, "violations": []}
        v = [(x["key"], x["detail"]) for x in r["props"]["C19"]["violations"]]
        return {"kind": kind, "violations": v, "fix_calls": r["stats"].get("fix_calls", 0)}
    if kind == "check":
        s = fixrun.setup(case)
        if isinstance(s, dict):
            if s["status"] == "parse_crash":
                return {"kind": kind, "violations": [("parse:%s:%s" % (s["exc"], s["frame"]), {"trace": s["trace"]})]}
            return {"kind": kind, "status2": s["status"], "violations": []}
        oFile, oRules, a, oConfig = s
        try:
            oRules.check_rules(bAllPhases=True)
            oRules.report_violations("vsg")
            oRules.extract_violation_dictionary()
            oRules.extract_junit_testcase("x.vhd")
        except harness.CpuTimeout:
            return {"kind": kind, "violations": [("check:hang", {"trace": traceback.format_exc()[-800:]})]}
        except Exception as e:
            tb = traceback.format_exc()
            return {"kind": kind, "violations": [(_key("check:" + type(e).__name__, tb), {"trace": tb[-1000:]})]}
        return {"kind": kind, "violations": [], "rules_ran": oRules.iNumberRulesRan}
    if kind == "isolation":
        text = fixrun.materialise(case)
        s = fixrun.setup(case, text)
        if isinstance(s, dict):
            return {"kind": kind, "status2": s["status"], "violations": []}
        oFile, oRules, a, oConfig = s
        V = []
        n = 0
        lines = text.split("\n")
        for o in oRules.rules:
            if o.deprecated or not isinstance(o.phase, int) or not 1 <= o.phase <= 7:
                continue  # rule_list only ever runs phases 1..7
            n += 1
            try:
                o.analyze(oFile)
                had = bool(o.violations)
                o.clear_violations()
                if had and o.fixable:
                    f2, r2 = vsgapi.build(lines, a, oConfig)
                    o2 = [x for x in r2.rules if x.unique_id == o.unique_id][0]
                    o2.fix(f2)
            except harness.CpuTimeout:
                V.append(("accepted:hang:%s" % o.unique_id, {"rule": o.unique_id}))
                break
            except Exception as e:
                tb = traceback.format_exc()
                V.append((_key("isolation:" + type(e).__name__, tb), {"rule": o.unique_id, "trace": tb[-800:]}))
                o.clear_violations()
        return {"kind": kind, "violations": V[:8], "rules": n}
    if kind == "broken":
        return _broken(case)
    if kind == "broken_cli":
        return _broken_cli(case)
    raise ValueError(kind)


def _broken_text(case):
    text = fixrun.source_text(case)
    return transforms.break_text(text, case["break"], case.get("k", 0))


def _check_message(msg, nlines):
    m = re.search(r"Line (\d+)", msg)
    if not m:
        return "diagnostic-without-line"
    n = int(m.group(1))
    if n < 1 or n > nlines + 1:
        return "diagnostic-line-outside-file"
    return None


def _broken(case):
    from vsg import apply_rules

    t2 = _broken_text(case)
    if t2 is None:
        return {"kind": "broken", "status2": "skip", "violations": []}
    d = os.path.join(vsgapi.scratch(), "c19b_%d" % harness.stable_hash(json.dumps(case, sort_keys=True)))
    os.makedirs(d, exist_ok=True)
    try:
        p = os.path.join(d, "b.vhd")
        with open(p, "w") as fh:
            fh.write(t2 + "\n")
        a, oConfig = fixrun.get_config(case.get("cfg", "jcl"))
        a = vsgapi.cla(**dict(vars(a), fix=bool(case.get("fix")), json="x", filename=[p]))
        nlines = t2.count("\n") + 1
        try:
            res = apply_rules.apply_rules(a, oConfig, (0, p))
        except harness.CpuTimeout:
            tb = traceback.format_exc()
            return {"kind": "broken", "violations": [("broken:hang:" + fixrun.loop_frame(tb), {"trace": tb[-1200:], "break": case["break"]})]}
        except Exception as e:
            tb = traceback.format_exc()
            phase = "parse" if "/vhdlFile/" in tb and "/rules/" not in tb else "rules"
            return {"kind": "broken", "violations": [(_key("broken:%s:%s" % (phase, type(e).__name__), tb), {"trace": tb[-1000:], "break": case["break"]})]}
        fExit, tc, dj, so, se, stop = res
        V = []
        outcome = "accepted"
        if se and "Error while processing" in se:
            outcome = "rejected"
            bad = _check_message(se, nlines)
            if bad:
                V.append(("broken:" + bad, {"msg": se[:300]}))
            if not fExit:
                V.append(("broken:rejected-but-exit-status-0", {}))
            with open(p) as fh:
                if fh.read() != t2 + "\n":
                    V.append(("broken:rejected-file-modified", {}))
        return {"kind": "broken", "violations": V, "outcome": outcome}
    finally:
        shutil.rmtree(d, ignore_errors=True)


def _broken_cli(case):
    t2 = _broken_text(case)
    if t2 is None:
        return {"kind": "broken_cli", "status2": "skip", "violations": []}
    d = os.path.join(vsgapi.scratch(), "c19c_%d" % harness.stable_hash(json.dumps(case, sort_keys=True)))
    os.makedirs(d, exist_ok=True)
    try:
        with open(os.path.join(d, "a_broken.vhd"), "w") as fh:
            fh.write(t2 + "\n")
        good = "\n".join(vsgapi.read_lines(os.path.join(vsgapi.REPO, case["next"])))
        with open(os.path.join(d, "b_next.vhd"), "w") as fh:
            fh.write(good + "\n")
        rc, so, se = vsgapi.run_cli(["-f", "a_broken.vhd", "b_next.vhd", "-p", str(case.get("jobs", 1)), "--style", "jcl", "--json", "o.json"], cwd=d)
        V = []
        if "Traceback" in se:
            tb = se
            return {"kind": "broken_cli", "violations": [(_key("broken-cli:" + (re.findall(r"^(\w+Error|\w+Exception)", se, re.M) or ["Exception"])[-1], tb), {"trace": se[-800:]})]}
        rejected = "Error while processing a_broken.vhd" in se
        if rejected:
            if rc != 1:
                V.append(("broken-cli:rejected-but-exit-status-%d" % rc, {}))
            bad = _check_message(se, t2.count("\n") + 1)
            if bad:
                V.append(("broken-cli:" + bad, {"msg": se[:300]}))
        try:
            with open(os.path.join(d, "o.json")) as fh:
                j = json.load(fh)
            names = [e.get("file_path") for e in j["files"] if e]
        except Exception:
            names = []
        next_processed = "b_next.vhd" in names and ("File:  b_next.vhd" in so or "Error while processing b_next.vhd" in se)
        if not next_processed:
            V.append(("broken-cli:next-file-not-processed", {"json_files": names, "rejected": rejected}))
        return {"kind": "broken_cli", "violations": V, "outcome": "rejected" if rejected else "accepted"}
    finally:
        shutil.rmtree(d, ignore_errors=True)


def _cases(tier, seed):
    rng = random.Random(seed)
    corpus = vsgapi.corpus()
    cases = []
    # (a) fix + check with every rule enabled on every corpus file, plus the sampled universe
    for f in corpus:
        cases.append({"kind": "fix", "file": f, "cfg": "all_enabled"})
    for g in range(200 if tier == "quick" else fixrun.N_GEN):
        cases.append({"kind": "fix", "gen": g, "cfg": "all_enabled"})
    uni = fixrun.universe(tier, seed, 0, 0, full=True, gen=True)
    nfix = 2500 if tier == "quick" else 25000
    ncheck = 1500 if tier == "quick" else 12000
    for c in harness.sample(rng, uni, nfix):
        cases.append(dict(c, kind="fix"))
    for c in harness.sample(rng, uni, ncheck):
        cases.append(dict(c, kind="check"))
    if tier != "quick":
        for f in harness.sample(rng, corpus, 600):
            cases.append({"kind": "isolation", "file": f, "cfg": "all_enabled"})
    # (b) broken inputs: finite universe file x kind x k<3
    nb = 3000 if tier == "quick" else 25000
    for _ in range(nb):
        cases.append({"kind": "broken", "file": rng.choice(corpus), "break": rng.choice(transforms.BREAK_KINDS), "k": rng.randrange(3), "fix": rng.random() < 0.3, "_cpu": BROKEN_CPU})
    for _ in range(24 if tier == "quick" else 200):
        cases.append({"kind": "broken_cli", "file": rng.choice(corpus), "break": rng.choice(transforms.BREAK_KINDS), "k": rng.randrange(3), "next": rng.choice(corpus), "jobs": rng.choice([1, 2])})
    return cases


def main(tier):
    t0 = time.time()
    seed = harness.seed()
    cases = _cases(tier, seed)
    results = harness.run_cases("props.c19", cases, cpu=CPU_BUDGET, wall=3000)
    V = harness.Verdict(PROP)
    stats = {"fix_runs": 0, "check_runs": 0, "isolation_files": 0, "isolation_rule_applications": 0, "broken_inputs": 0, "broken_rejected": 0, "broken_accepted": 0, "broken_cli": 0, "fix_calls": 0, "not_accepted_or_skipped": 0}
    nontriv = set()
    for c, r in zip(cases, results):
        st = r.get("status", "ok")
        if st == "hang":
            V.violation(_norm("%s:hang:%s" % ("broken" if c["kind"].startswith("broken") else "accepted", fixrun.loop_frame(r.get("trace", "")))), c, r)
            continue
        if st != "ok":
            V.note_inconclusive("%s %s" % (st, (str(r.get("detail")) + str(r.get("trace", ""))[-300:])[:400]))
            continue
        if r.get("status2"):
            stats["not_accepted_or_skipped"] += 1
            continue
        k = r["kind"]
        if k == "fix":
            stats["fix_runs"] += 1
            stats["fix_calls"] += r.get("fix_calls", 0)
        elif k == "check":
            stats["check_runs"] += 1
        elif k == "isolation":
            stats["isolation_files"] += 1
            stats["isolation_rule_applications"] += r.get("rules", 0)
        elif k == "broken":
            stats["broken_inputs"] += 1
            stats["broken_" + r.get("outcome", "accepted")] += 1 if r.get("outcome") else 0
        else:
            stats["broken_cli"] += 1
        nontriv.add(json.dumps(c, sort_keys=True))
        for key, det in r["violations"]:
            V.violation(_norm(key), c, det)
    if stats["fix_runs"] < 1000 or stats["broken_rejected"] < 300:
        V.note_inconclusive("too little observed: %s" % stats)
    rc = V.finish()
    harness.write_evidence(
        PROP,
        tier,
        "exploration",
        {
            "evaluations": len(cases),
            "distinct_nontrivial": len(nontriv),
            "rule": "fix/check: one run of the whole rule set on an accepted input (every corpus file under all-rules-enabled, plus a seeded sample of the finite universe); isolation: every rule alone on a raw parse; broken: one broken variant (file x kind x k<3) through apply_rules / the CLI; every executed case counts; termination is bounded by %d s of CPU time per case" % CPU_BUDGET,
            "samples": [cases[0], cases[len(cases) // 2], cases[-1]],
            "counters": stats,
            "known_findings_hit": sorted(V.known_hit),
            "inconclusive": V.inconclusive[:10],
        },
        time.time() - t0,
        len(V.unknown),
        assumptions=["'terminates' is restated as: finishes within %d s of CPU time (~100x the largest observed cost)" % CPU_BUDGET, "mechanism key = exception type + innermost vsg frame"],
    )
    return rc


def replay(path):
    with open(path) as f:
        d = json.load(f)
    res = run_case(d["case"])
    print(json.dumps(res, indent=1, default=str)[:4000])
    vsgapi.cleanup_scratch()
    if res.get("violations"):
        print("VIOLATION property=%s replay=%s" % (PROP, path))
        return 1
    return 0
