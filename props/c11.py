"""C11 — code tags suppress exactly the tagged rules on exactly the tagged lines.

Reference model (re-implementation of docs/code_tags.rst over *lines*, ~40 lines below) against
the observed behaviour of the real parser / rules:
  for each line and rule id: IN (the rule is switched off there), OUT, or BOUNDARY (the tag comment's
  own line: don't care).  Events: V_tag and V_neutral (same file, tag comments replaced by
  same-length ordinary comments), every violation with its reported line and the line span of its
  token slice; fixed text of both.
Oracle: every neutral violation whose span is wholly OUT for its rule is in V_tag; no V_tag
violation of rule r has its reported line IN for r; after --fix every block of lines that is IN for
*all* rules is still there unchanged (modulo trailing blanks); a file wrapped in a bare vsg_off
gives an empty report.  Combinations the documentation does not define (`vsg_on X` after a bare
`vsg_off`) are never generated.
"""
import json
import random
import time

from lib import fixrun, harness, monitors, vsgapi

PROP = "C11"

SHAPES = ("bare", "ids", "next", "next2", "ids_partial_on", "bare_inner_next", "bare_inner_idoff", "wrap_all", "remark", "two_regions", "ids_overlap", "ids_repeat", "next_in_ids", "ids_then_bare_on")


# ----------------------------------------------------------------------------- reference model


def model(lines):
    """Per line (1-based index i -> entry i-1): (frozenset of ids IN, all_in: bool, boundary: bool)."""
    tags = set()
    allin = False
    nxt = set()
    out = []
    for ln in lines:
        s = ln.strip()
        is_tag = False
        if s.startswith("-- vsg_off"):
            is_tag = True
            body = s.split(":")[0].split()
            if len(body) == 2:
                allin = True
                tags = set()
            else:
                tags |= set(body[2:])
            out.append((frozenset(tags), allin, True))
            continue
        if s.startswith("-- vsg_on"):
            body = s.split(":")[0].split()
            out.append((frozenset(tags), allin, True))
            if len(body) == 2:
                allin = False
                tags = set()
            else:
                tags -= set(body[2:])
            continue
        if s.startswith("-- vsg_disable_next_line"):
            body = s.split(":")[0].split()
            nxt |= set(body[2:])
            out.append((frozenset(tags | nxt), allin, True))
            continue
        out.append((frozenset(tags | nxt), allin, False))
        nxt = set()
    return out


def is_in(m, line, rid):
    if line < 1 or line > len(m):
        return False
    ids, allin, _ = m[line - 1]
    return allin or rid in ids


def is_boundary(m, line):
    return 1 <= line <= len(m) and m[line - 1][2]


# ----------------------------------------------------------------------------- workload


def place_tags(lines, ids, shape, rng):
    """Returns list of (insert_before_index, text) — applied from the bottom up."""
    n = len(lines)
    a = rng.randrange(1, max(2, n - 6))
    b = rng.randrange(a + 1, min(n - 1, a + 14) + 1)
    pick = rng.sample(ids, min(len(ids), rng.choice([1, 2, 3])))
    ind = " " * rng.choice([0, 0, 2, 4])
    P = " ".join(pick)
    if shape == "bare":
        return [(a, ind + "-- vsg_off"), (b, ind + "-- vsg_on")], pick
    if shape == "ids":
        return [(a, ind + "-- vsg_off " + P), (b, ind + "-- vsg_on " + P)], pick
    if shape == "remark":
        return [(a, ind + "-- vsg_off " + P + " : because of reasons: really"), (b, ind + "-- vsg_on " + P + " : done")], pick
    if shape == "next":
        return [(a, ind + "-- vsg_disable_next_line " + P)], pick
    if shape == "next2":
        q = rng.sample(ids, min(len(ids), 2))
        return [(a, ind + "-- vsg_disable_next_line " + P), (a, ind + "-- vsg_disable_next_line " + " ".join(q))], sorted(set(pick) | set(q))
    if shape == "ids_partial_on":
        if len(pick) < 2:
            return [(a, ind + "-- vsg_off " + P), (b, ind + "-- vsg_on " + P)], pick
        c = rng.randrange(b, min(n - 1, b + 8) + 1)
        return [(a, ind + "-- vsg_off " + P), (b, ind + "-- vsg_on " + pick[0]), (c, ind + "-- vsg_on " + " ".join(pick[1:]))], pick
    if shape == "bare_inner_next":
        if b - a < 3:
            b = min(n - 1, a + 4)
        c = rng.randrange(a + 1, max(a + 2, b))
        return [(a, ind + "-- vsg_off"), (c, ind + "-- vsg_disable_next_line " + P), (b, ind + "-- vsg_on")], pick
    if shape == "bare_inner_idoff":
        if b - a < 3:
            b = min(n - 1, a + 4)
        c = rng.randrange(a + 1, max(a + 2, b))
        return [(a, ind + "-- vsg_off"), (c, ind + "-- vsg_off " + P), (b, ind + "-- vsg_on")], pick
    if shape == "wrap_all":
        return [(0, "-- vsg_off"), (n, "-- vsg_on")], pick
    if shape == "ids_overlap":
        # the same id switched off by two overlapping tags, then everything switched on by one tag
        q = sorted(set(pick[:1] + rng.sample(ids, min(len(ids), 2))))
        c = rng.randrange(a + 1, max(a + 2, b))
        allp = sorted(set(pick) | set(q))
        return [(a, ind + "-- vsg_off " + P), (c, ind + "-- vsg_off " + " ".join(q)), (b, ind + "-- vsg_on " + " ".join(allp))], allp
    if shape == "ids_repeat":
        return [(a, ind + "-- vsg_off " + P + " " + pick[0]), (b, ind + "-- vsg_on " + P)], pick
    if shape == "next_in_ids":
        if b - a < 3:
            b = min(n - 1, a + 4)
        c = rng.randrange(a + 1, max(a + 2, b))
        q = rng.sample(ids, min(len(ids), 2))
        return [(a, ind + "-- vsg_off " + P), (c, ind + "-- vsg_disable_next_line " + " ".join(q)), (b, ind + "-- vsg_on " + P)], sorted(set(pick) | set(q))
    if shape == "ids_then_bare_on":
        return [(a, ind + "-- vsg_off " + P), (b, ind + "-- vsg_on")], pick
    if shape == "two_regions":
        c = rng.randrange(b, min(n - 1, b + 6) + 1)
        d = rng.randrange(c, min(n - 1, c + 8) + 1)
        return [(a, ind + "-- vsg_off " + P), (b, ind + "-- vsg_on " + P), (c, ind + "-- vsg_off"), (d, ind + "-- vsg_on")], pick
    raise ValueError(shape)


def _lines_inside_delimited_comment(text):
    """0-based indices i such that inserting a line BEFORE line i puts it inside a /* */ comment."""
    from lib import vlex

    out = set()
    line = 0
    for k, t in vlex.segs(text):
        n = t.count("\n")
        if k == "bcom" and n:
            out.update(range(line + 1, line + n + 1))
        line += n
    return out


def apply_tags(lines, placement):
    L = list(lines)
    # stable: insert in descending index order; equal indices keep listed order top-down
    order = sorted(range(len(placement)), key=lambda i: (placement[i][0], i), reverse=True)
    for i in order:
        idx, txt = placement[i]
        L.insert(idx, txt)
    return L


def _viol(oFile, oRules):
    from vsg import parser

    L = oFile.lAllObjects
    # line number of every index
    line_at = []
    ln = 1
    for t in L:
        line_at.append(ln)
        if isinstance(t, parser.carriage_return):
            ln += 1
    out = []
    for o in oRules.rules:
        for v in o.violations:
            s, e = v.oTokens.get_start_index(), v.oTokens.get_end_index()
            span = None
            if isinstance(s, int) and isinstance(e, int) and 0 <= s < len(L) and e >= s:
                span = (line_at[s], line_at[min(e, len(L)) - 1] if e > s else line_at[s])
            out.append((o.unique_id, v.get_line_number(), v.get_solution() or "", span))
    return out


def run_case(case):
    from vsg import exceptions

    text = fixrun.materialise(case)
    if text is None:
        return {"status": "skip"}
    lines = text.split("\n")
    if len(lines) < 10 or "vsg_" in text:
        return {"status": "skip", "why": "short file or already tagged"}
    a, oConfig = fixrun.get_config(case["cfg"])
    rng = random.Random(harness.stable_hash("c11", fixrun.case_name(case), case["shape"], case.get("salt", 0)))
    try:
        try:
            f0, r0 = vsgapi.build(lines, a, oConfig)
        except exceptions.ClassifyError:
            return {"status": "rejected"}
        r0.check_rules(bAllPhases=True)
        ids = sorted({o.unique_id for o in r0.rules if o.violations})
        if not ids:
            return {"status": "skip", "why": "no violations to suppress"}
        placement, pick = place_tags(lines, ids, case["shape"], rng)
        # a tag line that would land inside a delimited comment /* ... */ is not a comment token of its own
        # (so not a tag): such placements are outside the documented use and are skipped
        inside = _lines_inside_delimited_comment(text)
        if any(idx in inside for idx, _ in placement):
            return {"status": "skip", "why": "placement inside a delimited comment"}
        tagged = apply_tags(lines, placement)
        neutral = [x.replace("vsg_", "xsg_") if x.strip().startswith("-- vsg_") else x for x in tagged]
        m = model(tagged)
        ft, rt = vsgapi.build(tagged, a, oConfig)
        rt.check_rules(bAllPhases=True)
        fn, rn = vsgapi.build(neutral, a, oConfig)
        rn.check_rules(bAllPhases=True)
        vt, vn = _viol(ft, rt), _viol(fn, rn)
        st = {}
        for x in vt:
            st[(x[0], x[1], x[2])] = st.get((x[0], x[1], x[2]), 0) + 1
        viol = []
        n_out = n_in = 0
        named = set(pick)
        for rid, ln, sol, span in vn:
            if span is None:
                continue
            span_lines = set(range(span[0], span[1] + 1)) | {ln}
            touched = any(is_in(m, l, rid) or is_boundary(m, l) for l in span_lines)
            if not touched:
                n_out += 1
                if st.get((rid, ln, sol), 0) <= 0:
                    viol.append({"key": "%s:%s:outside-violation-missing" % (case["shape"], "named-rule" if rid in named else "unnamed-rule"), "detail": {"rule": rid, "line": ln, "solution": sol, "span": span, "tags": placement}})
                else:
                    st[(rid, ln, sol)] -= 1
        for rid, ln, sol, span in vt:
            if isinstance(ln, int) and is_in(m, ln, rid) and not is_boundary(m, ln):
                n_in += 1
                where = "tokens-on-that-line" if (span is None or span[0] <= ln <= span[1]) else "tokens-on-another-line"
                shape_key = case["shape"] if where == "tokens-on-that-line" else "any-shape"
                viol.append({"key": "%s:%s:reported-on-suppressed-line:%s" % (shape_key, "named-rule" if rid in named else "unnamed-rule", where), "detail": {"rule": rid, "line": ln, "solution": sol, "span": span, "tags": placement, "line_text": tagged[ln - 1][:100]}})
        n_supp = sum(1 for rid, ln, sol, span in vn if isinstance(ln, int) and is_in(m, ln, rid))
        if case["shape"] == "wrap_all" and vt:
            viol.append({"key": "wrap_all:report-not-empty", "detail": {"first": vt[0][:3]}})
        out = {"shape": case["shape"], "n_neutral": len(vn), "n_tagged": len(vt), "n_outside_checked": n_out, "n_suppressible": n_supp}
        if case.get("fix"):
            ff, rf = vsgapi.build(tagged, a, oConfig)
            rf.fix()
            fixed = [x.rstrip() for x in monitors.snap(ff).split("\n")]
            # blocks that are IN for all rules (strictly inside bare off..on)
            blocks = []
            cur = []
            for i, (ids_, allin, bd) in enumerate(m):
                if allin and not bd:
                    cur.append(tagged[i].rstrip())
                else:
                    if cur:
                        blocks.append(cur)
                    cur = []
            if cur:
                blocks.append(cur)
            out["fix_blocks"] = len(blocks)
            joined = "\n".join(fixed)
            for blk in blocks:
                # consecutive blank lines may be merged by the file-wide blank-line normalisation: compare without blank lines
                core = [x for x in blk if x != ""]
                if not core:
                    continue
                if not _contains_block([x for x in fixed if x != ""], core):
                    first_missing = next((x for x in core if x not in fixed), core[0])
                    viol.append({"key": "%s:fix-changed-lines-inside-off-region" % case["shape"], "detail": {"line": first_missing[:100], "tags": placement}})
                    break
    except harness.CpuTimeout:
        raise
    except Exception as e:
        import traceback

        return {"status": "crash", "detail": repr(e)[:200], "frame": fixrun.vsg_frame(traceback.format_exc())}
    out["violations"] = viol[:6]
    return out


def _contains_block(hay, needle):
    n = len(needle)
    first = needle[0]
    for i, x in enumerate(hay):
        if x == first and hay[i : i + n] == needle:
            return True
    return False


def _cases(tier, seed):
    rng = random.Random(seed)
    base = [c for c in fixrun.universe(tier, seed, 0, 0, full=True, gen=False) if not c.get("variant") or c["variant"][0][0] in ("resize", "case", "tabs", "split")]
    n = 900 if tier == "quick" else 9000
    cases = []
    for c in harness.sample(rng, base, n):
        c = dict(c, shape=rng.choice(SHAPES), salt=rng.randrange(4))
        if rng.random() < 0.35:
            c["fix"] = True
        cases.append(c)
    return cases


def main(tier):
    t0 = time.time()
    seed = harness.seed()
    cases = _cases(tier, seed)
    results = harness.run_cases("props.c11", cases, cpu=600, wall=2400)
    V = harness.Verdict(PROP)
    stats = {"pairs": 0, "outside_violations_checked": 0, "suppressible_violations": 0, "fix_cases": 0, "fix_blocks": 0, "crash(C19)": 0, "by_shape": {}, "skip": {}}
    nontriv = set()
    for c, r in zip(cases, results):
        st = r.get("status", "ok")
        if st in ("harness_error", "worker_died", "inconclusive", "hang"):
            V.note_inconclusive("%s %s %s" % (fixrun.case_name(c), st, str(r.get("detail"))[:300]))
            continue
        if st == "crash":
            stats["crash(C19)"] += 1
            continue
        if st != "ok":
            stats["skip"][r.get("why", st)] = stats["skip"].get(r.get("why", st), 0) + 1
            continue
        stats["pairs"] += 1
        stats["by_shape"][r["shape"]] = stats["by_shape"].get(r["shape"], 0) + 1
        stats["outside_violations_checked"] += r["n_outside_checked"]
        stats["suppressible_violations"] += r["n_suppressible"]
        if "fix_blocks" in r:
            stats["fix_cases"] += 1
            stats["fix_blocks"] += r["fix_blocks"]
        if r["n_suppressible"] > 0:
            nontriv.add("%s|%s|%s" % (fixrun.case_name(c), c["shape"], c["salt"]))
        for v in r["violations"]:
            V.violation(v["key"], c, v["detail"])
    if stats["pairs"] < 200 or stats["suppressible_violations"] < 300:
        V.note_inconclusive("too little observed: %s" % {k: v for k, v in stats.items() if isinstance(v, int)})
    rc = V.finish()
    harness.write_evidence(
        PROP,
        tier,
        "exploration",
        {
            "evaluations": len(cases),
            "distinct_nontrivial": len(nontriv),
            "rule": "one evaluation per (input, config, tag shape, salt) tagged/neutral pair; non-trivial = at least one violation of the neutral file lies on a line the model says is suppressed; distinct by that tuple",
            "samples": [{"case": c, "result": {k: v for k, v in r.items() if k != "violations"}} for c, r in list(zip(cases, results))[:4]],
            "counters": stats,
            "tag_shapes": list(SHAPES),
            "known_findings_hit": sorted(V.known_hit),
            "inconclusive": V.inconclusive[:10],
        },
        time.time() - t0,
        len(V.unknown),
        assumptions=["the line-based reference model in props/c11.py is the documented tag semantics (docs/code_tags.rst)", "violations whose token span touches a tagged or tag-comment line are 'don't care'"],
    )
    return rc


def replay(path):
    with open(path) as f:
        d = json.load(f)
    res = run_case(d["case"])
    print(json.dumps(res, indent=1, default=str)[:4000])
    if res.get("violations"):
        print("VIOLATION property=%s replay=%s" % (PROP, path))
        return 1
    return 0
