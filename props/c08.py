"""C08 — what VSG writes is what it would read.

After the real fix run and the report pass (clear_violations + check_rules, as apply_rules does):
M = [(role, value, indent)] of the in-memory model and V_end; then the emitted text is parsed
afresh with the same configuration -> M', V_fresh.  Oracle: the text is accepted, M == M',
V_end == V_fresh (lib/fixmon.eval_c08; a diagnosis pass re-parses after every rule application and
names the first rule after which model and text diverge).  Through the real CLI on a sample: the
report printed by `--fix` equals the report of a following plain run on the written file, and the
written file holds exactly the monitored model's text (C01's boundary monitor M3).
"""
import json
import os
import random
import shutil

from lib import cfgpool, fixmon, fixrun, harness, vsgapi

PROP = "C08"


def run_case(case):
    if case.get("cli"):
        return _cli(case)
    return fixmon.run(case, {PROP})


def _cli(case):
    text = fixrun.materialise(case)
    if text is None:
        return {"status": "skip"}
    style, dicts = cfgpool.pool_entry(case["cfg"])
    d = os.path.join(vsgapi.scratch(), "c08cli_%d" % harness.stable_hash(json.dumps(case, sort_keys=True)))
    os.makedirs(d, exist_ok=True)
    try:
        with open(os.path.join(d, "case.vhd"), "w") as f:
            f.write(text + "\n")
        args = ["-f", "case.vhd", "-p", "1"] + (["--style", style] if style else []) + (["-c"] + [vsgapi.write_config_file(x) for x in dicts] if dicts else [])
        rc1, so1, se1 = vsgapi.run_cli(args + ["--fix"], cwd=d)
        with open(os.path.join(d, "case.vhd")) as f:
            disk = f.read()
        rc2, so2, se2 = vsgapi.run_cli(args, cwd=d)
        V = []
        # the same case in-process: a divergence the in-process monitors already report (listed or not) is
        # that mechanism, not a separate one; the CLI cases judge the CLI/in-process boundary only
        inproc = fixmon.run(case, {PROP})
        inproc_v = (inproc.get("props", {}).get(PROP) or {}).get("violations", [])
        if inproc_v:
            return {"props": {PROP: {"violations": inproc_v, "nontrivial": True, "cli_runs": 1}}, "stats": {}}
        if "Traceback" in se1 + se2:
            return {"props": {PROP: {"violations": [], "nontrivial": False, "skipped": "traceback (C19)"}}, "stats": {}}
        if "Error while processing" in se1:
            return {"props": {PROP: {"violations": [], "nontrivial": False, "skipped": "input rejected"}}, "stats": {}}
        if "Error while processing" in se2:
            V.append({"key": "cli:written-file-rejected-by-plain-run", "detail": {"msg": se2[:300]}})
        elif so1 != so2 or rc1 != rc2:
            from props import c14

            f1 = c14._parse_vsg(so1)
            f2 = c14._parse_vsg(so2)
            r1 = sorted((r[0], r[1], r[2]) for r in (f1[0]["rows"] if f1 else []))
            r2 = sorted((r[0], r[1], r[2]) for r in (f2[0]["rows"] if f2 else []))
            only1 = [r for r in r1 if r not in r2]
            only2 = [r for r in r2 if r not in r1]
            rule = (only2 or only1 or [("phase-or-counts",)])[0][0]
            V.append({"key": "cli:report-after-fix-differs-from-plain-run:%s" % rule, "detail": {"only_after_fix": only1[:3], "only_plain_run": only2[:3], "rc": [rc1, rc2]}})
        # C01-M3: the written file is the monitored model
        r = fixmon.run(case, {"C01"})
        if r.get("props") and not r.get("crash"):
            from lib import monitors

            a, oc = fixrun.get_config(case["cfg"])
            f, rl = vsgapi.build(text.split("\n"), a, oc)
            try:
                rl.fix()
                model = monitors.snap(f)
                if rl.had_violations and disk != model:
                    V.append({"key": "cli:written-file-differs-from-in-memory-model", "detail": {}})
                if not rl.had_violations and disk != text + "\n":
                    V.append({"key": "cli:file-changed-although-nothing-was-fixed", "detail": {}})
            except Exception:
                pass
        return {"props": {PROP: {"violations": V, "nontrivial": disk != text + "\n", "cli_runs": 1}}, "stats": {}}
    finally:
        shutil.rmtree(d, ignore_errors=True)


def main(tier):
    import lib.fixrun as fr

    real_universe = fr.universe

    def universe(tier_, seed, nq, nt, **kw):
        cases = real_universe(tier_, seed, nq, nt, **kw)
        rng = random.Random(seed + 7)
        extra = []
        for c in rng.sample(cases, 40 if tier_ == "quick" else 300):
            extra.append(dict(c, cli=True))
        return cases + extra

    fr.universe = universe
    try:
        return fixmon.drive(
            PROP,
            "props.c08",
            tier,
            8800,
            40000,
            rule_text="one evaluation per monitored fix run whose output is re-parsed and re-checked (non-trivial = the output was accepted and compared token by token), plus CLI cases (--fix then plain run on the written file); distinct by case description",
            assumptions=["model = (token class, value, indent) of every token; fresh parse under the same configuration object"],
            min_nontrivial=200,
        )
    finally:
        fr.universe = real_universe


def replay(path):
    with open(path) as f:
        d = json.load(f)
    if d["case"].get("cli"):
        res = run_case(d["case"])
        p = res.get("props", {}).get(PROP, {})
        print(json.dumps(p, indent=1, default=str)[:3000])
        vsgapi.cleanup_scratch()
        if p.get("violations"):
            print("VIOLATION property=%s replay=%s" % (PROP, path))
            return 1
        return 0
    return fixmon.replay(PROP, path)
