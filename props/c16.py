"""C16 — write-back is all-or-nothing and keeps the file's mode.

Fault enumeration at the system-call boundary of the real CLI (strace 6.1):
  1. an undisturbed `vsg --fix` run is traced (`strace -f -P <target> -P <target>.tmp [-P .bak]`);
     an offline trace checker asserts: the target is never opened for writing, the only call that
     changes it is rename(tmp -> target), and that rename is preceded by close(tmp) and
     (how the mode is preserved is not prescribed: it is checked on the outcome, under umask 022,
     for modes the umask would alter);
  2. for EVERY call in that trace (openat / write / close / chmod / rename / unlink, each occurrence n)
     the run is repeated with `-e inject=<call>:error=<errno>:when=n` for several errnos and with
     `-e inject=<call>:signal=SIGKILL:when=n` (crash exactly there);
  3. Python-level faults at the same points through audit hooks (KeyboardInterrupt, RuntimeError), a
     rule raising in the middle of the fix phase, and files that fail to parse with --fix.
Oracle after every run: bytes(target) in {original, fully fixed (= output of the undisturbed run)};
st_mode unchanged; if the process was not killed, <target>.tmp does not exist; with --backup the
.bak file, whenever the copy was not the faulted step, is byte-identical to the original.
"""
import json
import os
import random
import re
import shutil
import signal
import stat
import subprocess
import time

from lib import harness, transforms, vsgapi

PROP = "C16"
STRACE = shutil.which("strace") or "/usr/bin/strace"
CALLS = "openat,open,creat,write,pwrite64,writev,close,chmod,fchmod,fchmodat,rename,renameat,renameat2,unlink,unlinkat,truncate,ftruncate,link,linkat,sendfile,copy_file_range,utimensat"
ERRNOS = {"openat": ["EACCES", "ENOSPC", "EROFS"], "write": ["ENOSPC", "EIO"], "close": ["EIO"], "chmod": ["EPERM", "EROFS"], "fchmod": ["EPERM"], "fchmodat": ["EPERM"], "rename": ["EACCES", "EXDEV", "ENOSPC"], "renameat": ["EACCES"], "renameat2": ["EACCES"], "unlink": ["EACCES"], "unlinkat": ["EACCES"], "sendfile": ["EIO"], "copy_file_range": ["EIO", "EXDEV"], "utimensat": ["EPERM"]}

_VSG = "import sys; sys.argv[0]='vsg'; sys.path.insert(0, %r); from vsg.__main__ import main; main()" % vsgapi.REPO


def _env():
    env = dict(os.environ)
    env["PYTHONPATH"] = vsgapi.REPO + os.pathsep + os.path.join(vsgapi.VERIF, "lib")
    env["PYTHONHASHSEED"] = "0"
    env["PYTHONWARNINGS"] = "ignore"
    return env


def _strace(d, args, inject=None, log="trace.log", backup=False):
    paths = ["t.vhd", "t.vhd.tmp", os.path.join(d, "t.vhd"), os.path.join(d, "t.vhd.tmp")]
    if backup:
        paths += ["t.vhd.bak", os.path.join(d, "t.vhd.bak")]
    cmd = [STRACE, "-f", "-o", os.path.join(d, log)]
    for p in paths:
        cmd += ["-P", p]
    cmd += ["-e", "trace=" + CALLS]
    if inject:
        cmd += ["-e", "inject=" + inject]
    cmd += [vsgapi.PY, "-c", _VSG] + args
    try:
        p = subprocess.run(cmd, cwd=d, capture_output=True, text=True, timeout=300, env=_env(), preexec_fn=lambda: os.umask(0o022))
    except subprocess.TimeoutExpired:
        return -9, "", "Traceback (most recent call last):\n  <no answer within 300 s: hang (C19)>\n"
    return p.returncode, p.stdout, p.stderr


def _parse_trace(path):
    ev = []
    if not os.path.exists(path):
        return ev
    with open(path) as f:
        for ln in f:
            m = re.match(r"\d+\s+(\w+)\((.*)\)\s+=\s+(-?\d+|\?)(.*)$", ln.rstrip())
            if m:
                ev.append({"call": m.group(1), "args": m.group(2), "ret": m.group(3), "rest": m.group(4)})
    return ev


def check_trace(ev, mode):
    """Offline checker over the undisturbed trace. Returns list of (key, detail)."""
    bad = []
    renames = []
    closed_tmp = False
    chmod_tmp = None
    tmp_fds = set()
    for i, e in enumerate(ev):
        c, a = e["call"], e["args"]
        is_tmp = '"t.vhd.tmp"' in a or "/t.vhd.tmp\"" in a
        is_target = ('"t.vhd"' in a or a.rstrip().endswith('/t.vhd"') or '/t.vhd",' in a) and not is_tmp
        if c in ("openat", "open", "creat"):
            if is_target and re.search(r"O_WRONLY|O_RDWR|O_TRUNC|O_CREAT|O_APPEND", a):
                bad.append(("trace:target-opened-for-writing", {"call": a[:120]}))
            if is_tmp and e["ret"].isdigit():
                tmp_fds.add(e["ret"])
        elif c == "close":
            if a.strip() in tmp_fds:
                closed_tmp = True
        elif c in ("chmod", "fchmodat", "fchmod"):
            pass  # how the mode is preserved is the implementation's business; the outcome is checked after every run
        elif c in ("rename", "renameat", "renameat2"):
            if "t.vhd.tmp" in a.split(",")[0] or ("t.vhd.tmp" in a and a.index("t.vhd.tmp") < a.rindex("t.vhd")):
                renames.append(i)
                if tmp_fds and not closed_tmp:
                    bad.append(("trace:rename-before-close-of-tmp", {}))
            elif is_target:
                bad.append(("trace:target-renamed-away", {"call": a[:120]}))
        elif c in ("unlink", "unlinkat", "truncate") and is_target:
            bad.append(("trace:%s-on-target" % c, {"call": a[:120]}))
    return bad


def _state(d):
    t = os.path.join(d, "t.vhd")
    st = {"exists": os.path.exists(t)}
    if st["exists"]:
        with open(t, "rb") as f:
            st["data"] = f.read()
        st["mode"] = stat.S_IMODE(os.stat(t).st_mode)
    st["tmp"] = os.path.exists(t + ".tmp")
    if os.path.exists(t + ".bak"):
        with open(t + ".bak", "rb") as f:
            st["bak"] = f.read()
    return st


def _reset(d, orig, mode):
    for fn in ("t.vhd", "t.vhd.tmp", "t.vhd.bak"):
        p = os.path.join(d, fn)
        if os.path.exists(p):
            os.chmod(p, 0o644)
            os.remove(p)
    t = os.path.join(d, "t.vhd")
    with open(t, "wb") as f:
        f.write(orig)
    os.chmod(t, mode)


def _judge(st, orig, fixed, mode, killed, fault_in_copy, label):
    out = []
    if not st["exists"]:
        out.append(("target-missing", {"fault": label}))
        return out
    if st["data"] != orig and st["data"] != fixed:
        kind = "truncated" if (fixed.startswith(st["data"]) or orig.startswith(st["data"])) else "mixed"
        out.append(("target-content-%s" % kind, {"fault": label, "len": len(st["data"]), "orig": len(orig), "fixed": len(fixed)}))
    if st["mode"] != mode:
        out.append(("target-mode-changed", {"fault": label, "mode": "%o" % st["mode"], "orig": "%o" % mode, "content": "fixed" if st["data"] == fixed else "original"}))
    if st["tmp"] and not killed:
        out.append(("tmp-left-after-non-fatal-failure", {"fault": label}))
    if "bak" in st and not fault_in_copy and st["bak"] != orig:
        out.append(("backup-differs-from-original", {"fault": label}))
    return out


def run_case(case):
    os.umask(0o022)  # the usual umask: modes with group/other write bits would be altered by a careless create
    d = os.path.join(vsgapi.scratch(), "c16_%d" % harness.stable_hash(json.dumps(case, sort_keys=True)))
    os.makedirs(d, exist_ok=True)
    try:
        text = "\n".join(vsgapi.read_lines(os.path.join(vsgapi.REPO, case["file"])))
        orig = (text + "\n").encode("utf-8")
        mode = case["mode"]
        backup = bool(case.get("backup"))
        args = ["-f", "t.vhd", "--fix", "-p", "1", "--style", case.get("style", "jcl")] + (["--backup"] if backup else [])
        kind = case["kind"]
        if kind == "encoding":
            # the same text once as UTF-8 and once as ISO-8859-1 with the first non-ASCII byte beyond 8 KiB: the
            # fixed files (VSG writes UTF-8) must be identical, i.e. the complete fixed content, nothing mixed
            header = "\n".join("-- revision history line %04d ....................................................." % i for i in range(140))
            full = header + "\n-- author: Jos\xe9 Mu\xf1oz\n" + text + "\n"
            res = {}
            for enc in ("utf-8", "iso-8859-1"):
                _reset(d, full.encode(enc), mode)
                rc, so, se = _strace(d, args, backup=backup)
                if "Traceback" in se:
                    return {"status": "skip", "why": "undisturbed run raises (C19)"}
                res[enc] = _state(d)
            V = []
            if res["utf-8"]["data"] == full.encode("utf-8"):
                return {"status": "skip", "why": "nothing to fix"}
            if res["iso-8859-1"]["data"] not in (res["utf-8"]["data"], full.encode("iso-8859-1")):
                n1 = res["iso-8859-1"]["data"].count(b"\n")
                n0 = res["utf-8"]["data"].count(b"\n")
                V.append(("target-content-mixed:non-utf8-input", {"lines_written": n1, "lines_expected": n0}))
            if res["iso-8859-1"]["mode"] != mode:
                V.append(("target-mode-changed:non-utf8-input", {}))
            return {"kind": kind, "violations": V, "runs": 2, "faults": ["encoding:iso-8859-1-late-byte"]}
        if kind == "unparsable":
            t2 = transforms.break_text(text, case["break"], case.get("k", 0))
            if t2 is None:
                return {"status": "skip"}
            orig = (t2 + "\n").encode("utf-8")
            _reset(d, orig, mode)
            rc, so, se = _strace(d, args, backup=backup)
            st = _state(d)
            V = []
            ev = _parse_trace(os.path.join(d, "trace.log"))
            accepted = "Error while processing" not in se and "Traceback" not in se
            if accepted:
                return {"status": "skip", "why": "broken text still accepted"}
            if st["data"] != orig or st["mode"] != mode or st["tmp"]:
                V.append(("unparsable-file-modified", {"rc": rc}))
            return {"kind": kind, "violations": V, "runs": 1, "faults": []}
        # undisturbed reference
        _reset(d, orig, mode)
        rc0, so0, se0 = _strace(d, args, backup=backup)
        if "Traceback" in se0:
            return {"status": "skip", "why": "undisturbed run raises (C19)"}
        st0 = _state(d)
        fixed = st0["data"]
        if fixed == orig:
            return {"status": "skip", "why": "nothing to fix"}
        ev = _parse_trace(os.path.join(d, "trace.log"))
        V = list(check_trace(ev, mode))
        V += _judge(st0, orig, fixed, mode, False, False, "none")
        if backup and st0.get("bak") != orig:
            V.append(("backup-differs-from-original", {"fault": "none"}))
        faults = []
        runs = 1
        if kind == "syscall":
            counts = {}
            points = []
            seen_rename = False
            for e in ev:
                c = e["call"]
                counts[c] = counts.get(c, 0) + 1
                in_copy = backup and ("t.vhd.bak" in e["args"] or c in ("sendfile", "copy_file_range", "utimensat")) and not seen_rename
                points.append((c, counts[c], in_copy))
            sel = case.get("select")
            for idx, (c, n, in_copy) in enumerate(points):
                if sel is not None and idx % sel[1] != sel[0]:
                    continue
                for f in [("error", x) for x in ERRNOS.get(c, ["EIO"])[: case.get("nerr", 2)]] + [("signal", "SIGKILL")]:
                    _reset(d, orig, mode)
                    inj = "%s:%s=%s:when=%d" % (c, f[0], f[1], n)
                    rc, so, se = _strace(d, args, inject=inj, log="t2.log", backup=backup)
                    runs += 1
                    fired = "INJECTED" in open(os.path.join(d, "t2.log")).read() or f[0] == "signal"
                    killed = rc in (-9, 137) or f[0] == "signal"
                    st = _state(d)
                    label = inj
                    faults.append(label)
                    for k, det in _judge(st, orig, fixed, mode, killed, in_copy, label):
                        V.append(("%s:after-%s-at-%s" % (k, "kill" if f[0] == "signal" else "error", c), det))
        elif kind == "python":
            launcher = os.path.join(vsgapi.VERIF, "lib", "vsg_launch.py")
            for event, nmax, sub in (("open", 2, "t.vhd"), ("os.chmod", 1, "t.vhd"), ("os.rename", 1, "t.vhd"), ("os.remove", 1, "t.vhd"), ("shutil.copyfile", 1, "t.vhd")):
                for n in range(1, nmax + 1):
                    for exc in ("KeyboardInterrupt", "RuntimeError", "EACCES", "ENOSPC"):
                        _reset(d, orig, mode)
                        env = {"VSG_VERIF_FAULT": "%s:%d:%s:%s" % (event, n, exc, sub)}
                        rc, so, se = vsgapi.run_cli(args, cwd=d, launcher=launcher, env_extra=env)
                        runs += 1
                        st = _state(d)
                        label = "audit:%s#%d:%s" % (event, n, exc)
                        faults.append(label)
                        for k, det in _judge(st, orig, fixed, mode, False, event == "shutil.copyfile", label):
                            V.append(("%s:after-%s-at-%s" % (k, exc, event), det))
            # a rule raising in the middle of the fix phase
            for rid in case.get("rulefault", []):
                _reset(d, orig, mode)
                rc, so, se = vsgapi.run_cli(args, cwd=d, launcher=launcher, env_extra={"VSG_VERIF_RULEFAULT": rid})
                runs += 1
                st = _state(d)
                faults.append("rule-raises:" + rid)
                for k, det in _judge(st, orig, fixed, mode, False, False, "rule-raises:" + rid):
                    V.append(("%s:after-rule-exception" % k, det))
        return {"kind": kind, "violations": V[:10], "runs": runs, "faults": faults, "trace_len": len(ev), "trace": [e["call"] for e in ev]}
    finally:
        for fn in os.listdir(d):
            try:
                os.chmod(os.path.join(d, fn), 0o644)
            except OSError:
                pass
        shutil.rmtree(d, ignore_errors=True)


def _cases(tier, seed):
    rng = random.Random(seed)
    corpus = vsgapi.corpus()
    cand = [f for f in corpus if "test_input.vhd" in f and os.path.getsize(os.path.join(vsgapi.REPO, f)) < 4000]
    big = [f for f in corpus if os.path.getsize(os.path.join(vsgapi.REPO, f)) > 30000]
    modes = [0o644, 0o664, 0o600, 0o666, 0o444, 0o775, 0o755, 0o640]
    cases = []
    nsys = 6 if tier == "quick" else 40
    for i in range(nsys):
        f = rng.choice(cand if i % 3 else (big or cand))
        cases.append({"kind": "syscall", "file": f, "mode": modes[i % len(modes)], "backup": i % 3 == 2, "nerr": 2 if tier == "quick" else 3})
    npy = 3 if tier == "quick" else 20
    for i in range(npy):
        cases.append({"kind": "python", "file": rng.choice(cand), "mode": modes[(i * 3 + 1) % len(modes)], "backup": i % 2 == 1, "rulefault": rng.sample(["whitespace_001", "process_018", "architecture_010", "signal_007", "comment_010", "port_012"], 3)})
    for i in range(4 if tier == "quick" else 30):
        cases.append({"kind": "unparsable", "file": rng.choice(cand), "mode": rng.choice(modes), "break": rng.choice(["truncate", "paren", "delete"]), "k": rng.randrange(3), "backup": i % 2 == 0})
    for i in range(3 if tier == "quick" else 20):
        cases.append({"kind": "encoding", "file": rng.choice(cand), "mode": modes[i % len(modes)], "backup": False})
    # split each syscall case into slices so the 16 workers share the enumeration
    out = []
    for c in cases:
        if c["kind"] == "syscall":
            for s in range(3):
                out.append(dict(c, select=[s, 3]))
        else:
            out.append(c)
    return out


def main(tier):
    t0 = time.time()
    if not os.path.exists(STRACE):
        print("INCONCLUSIVE property=C16 reason=strace not available")
        return 2
    seed = harness.seed()
    cases = _cases(tier, seed)
    results = harness.run_cases("props.c16", cases, cpu=900, wall=2400)
    V = harness.Verdict(PROP)
    stats = {"fault_runs": 0, "syscall_cases": 0, "python_cases": 0, "unparsable_cases": 0, "encoding_cases": 0, "traces_checked": 0, "skipped": {}}
    faults = set()
    trace_shapes = set()
    for c, r in zip(cases, results):
        st = r.get("status", "ok")
        if st == "skip":
            stats["skipped"][r.get("why", "skip")] = stats["skipped"].get(r.get("why", "skip"), 0) + 1
            continue
        if st != "ok":
            V.note_inconclusive("%s %s" % (st, (str(r.get("detail")) + str(r.get("trace", ""))[-300:])[:400]))
            continue
        stats["fault_runs"] += r["runs"]
        stats[r["kind"] + "_cases"] += 1
        if r.get("trace"):
            stats["traces_checked"] += 1
            trace_shapes.add(" ".join(r["trace"]))
        for f in r["faults"]:
            faults.add(re.sub(r"when=\d+", "when=n", f) + "|" + "%o" % c["mode"] + ("|backup" if c.get("backup") else ""))
        for key, det in r["violations"]:
            V.violation(key, c, det)
    if stats["fault_runs"] < 60 or stats["traces_checked"] < 3:
        V.note_inconclusive("too little observed: %s" % stats)
    rc = V.finish()
    harness.write_evidence(
        PROP,
        tier,
        "fault_enumeration",
        {
            "evaluations": stats["fault_runs"],
            "distinct_nontrivial": len(faults),
            "rule": "one evaluation = one real CLI --fix run with one injected fault; faults are enumerated over EVERY call of the undisturbed strace trace touching target / tmp / bak (errno injections and SIGKILL at that call), plus audit-hook exceptions at open/chmod/rename/remove/copyfile, a raising rule, unparsable inputs; distinct = (call or event, fault, file mode, backup)",
            "samples": sorted(faults)[:12],
            "counters": stats,
            "undisturbed_trace_shapes": sorted(trace_shapes)[:4],
            "exhaustive": True,
            "exhaustive_over": "every call of each observed write-back trace (per input/mode/backup combination listed in samples)",
            "known_findings_hit": sorted(V.known_hit),
            "inconclusive": V.inconclusive[:10],
        },
        time.time() - t0,
        len(V.unknown),
        assumptions=["crash points are system-call boundaries of the observed trace and Python audit events; power loss / fsync ordering is out of scope (VSG does not fsync; the property does not mention durability)", "'fully fixed' = bytes written by the undisturbed run of the same command"],
    )
    return rc


def replay(path):
    with open(path) as f:
        d = json.load(f)
    res = run_case(d["case"])
    print(json.dumps(res, indent=1, default=str)[:4000])
    vsgapi.cleanup_scratch()
    if res.get("violations"):
        print("VIOLATION property=%s replay=%s" % (PROP, path))
        return 1
    return 0
