"""C20 — --fix_only fixes what it lists and nothing else.

Differential observation of the real rule_list.fix(dFixOnly=...) (and the real CLI for a sample):
 (i)   every rule listed with "all"  ==> same text as a plain fix;
 (ii)  empty selection               ==> nothing is fixed: no rule's _fix_violation runs, had_violations
       stays False, and through the CLI the file is untouched (bytes and inode);
 (iii) a line-local rule r (documented whitespace/indent/alignment/case) listed with a random subset L
       of the lines it reports, on an input already stable under phases 1 and 3: the changed lines are
       exactly L (modulo file-wide trailing-whitespace removal) and equal what the full r-fix
       produces there; the monitor also shows that no violation of an unlisted rule or line reached
       update().
"""
import json
import os
import random
import shutil
import time

from lib import cfgpool, effects, fixrun, harness, monitors, vsgapi

PROP = "C20"


class FixedSink(monitors.Sink):
    """records which (rule, line) violations were handed to update()"""

    def __init__(self):
        self.fixed = []

    def update_before(self, rule, oFile, lUpdates, bUpdateMap):
        if rule is not None:
            for v in lUpdates:
                self.fixed.append((rule.unique_id, v.get_line_number()))


def _line_local(rid):
    d = effects.doc_classes().get(rid)
    return bool(d) and not d.get("moved") and "structure" not in d["icons"] and bool(d["icons"] & {"whitespace", "indent", "alignment", "case"})


def run_case(case):
    from vsg import exceptions

    text = fixrun.materialise(case)
    if text is None:
        return {"status": "skip"}
    a, oConfig = fixrun.get_config(case["cfg"])
    lines = text.split("\n")
    viol = []
    out = {"mode": case["mode"]}
    try:
        try:
            f0, r0 = vsgapi.build(lines, a, oConfig)
        except exceptions.ClassifyError:
            return {"status": "rejected"}
        mode = case["mode"]
        if mode == "all":
            r0.fix()
            t0 = monitors.snap(f0)
            f1, r1 = vsgapi.build(lines, a, oConfig)
            d = {"fix": {"rule": {o.unique_id: ["all"] for o in r1.rules}}}
            r1.fix(7, None, d)
            t1 = monitors.snap(f1)
            out["changed"] = t0 != text + "\n"
            if t0 != t1:
                la, lb = t0.split("\n"), t1.split("\n")
                dd = [(i + 1, x, y) for i, (x, y) in enumerate(zip(la, lb)) if x != y][:2]
                viol.append({"key": "all-rules-all-lines:differs-from-plain-fix", "detail": {"diff": dd, "len": [len(la), len(lb)]}})
            if r0.had_violations != r1.had_violations:
                viol.append({"key": "all-rules-all-lines:had_violations-differs", "detail": {}})
        elif mode == "empty":
            sink = FixedSink()
            monitors.Instrument(f0, r0, [sink])
            r0.fix(7, None, {"fix": {"rule": {}}})
            out["changed"] = True
            if sink.fixed:
                viol.append({"key": "empty-selection:%s-fixed" % sink.fixed[0][0], "detail": {"fixed": sink.fixed[:4]}})
            if r0.had_violations:
                viol.append({"key": "empty-selection:had_violations-set", "detail": {}})
            if case.get("cli"):
                out["cli"] = _cli_empty(case, text)
        else:  # subset
            # stabilise under phases 1..3 first so that line numbers do not shift
            r0.fix(3)
            base = monitors.snap(f0)
            base = base[:-1] if base.endswith("\n") else base
            blines = base.split("\n")
            fa, ra = vsgapi.build(blines, a, oConfig)
            ra.fix(3)
            if monitors.snap(fa).rstrip("\n") != base:
                return {"status": "skip", "why": "not stable under phases 1-3 (C09 territory)"}
            # which line-local rules report here?
            fb, rb = vsgapi.build(blines, a, oConfig)
            rb.check_rules(bAllPhases=True)
            cands = [o for o in rb.rules if o.violations and o.fixable and not o.disable and o.severity.type == "error" and _line_local(o.unique_id)]
            if not cands:
                return {"status": "skip", "why": "no line-local rule reports on the stabilised input"}
            rng = random.Random(harness.stable_hash("c20", fixrun.case_name(case), case.get("salt", 0)))
            cands = sorted(cands, key=lambda x: x.unique_id)
            # hostile choice: prefer rules that emit their violations out of line order or several per line
            odd = [x for x in cands if [v.get_line_number() for v in x.violations] != sorted(set(v.get_line_number() for v in x.violations))]
            o = rng.choice(odd) if odd and rng.random() < 0.6 else rng.choice(cands)
            rid = o.unique_id
            emitted = [v.get_line_number() for v in o.violations]
            rep = sorted(set(emitted))
            how = rng.randrange(4)
            if len(rep) < 2:
                L = rep
            elif how == 0:
                L = [rep[0]]  # only the smallest line
            elif how == 1:
                L = sorted(set(emitted[len(emitted) // 2 :]))  # what the rule emitted last
            elif how == 2:
                L = rep[:-1]  # all but the largest line
            else:
                L = sorted(rng.sample(rep, max(1, len(rep) // 2)))
            out["emission_out_of_order"] = emitted != sorted(emitted)
            # reference: full fix of r alone
            fr, rr = vsgapi.build(blines, a, oConfig)
            rr.fix(7, None, {"fix": {"rule": {rid: ["all"]}}})
            full = monitors.snap(fr).split("\n")
            # selection
            fs, rs = vsgapi.build(blines, a, oConfig)
            sink = FixedSink()
            monitors.Instrument(fs, rs, [sink])
            rs.fix(7, None, {"fix": {"rule": {rid: list(L)}}})
            sel = monitors.snap(fs).split("\n")
            out.update({"rule": rid, "reported": len(rep), "selected": len(L), "changed": True})
            bad_fixed = [x for x in sink.fixed if x[0] != rid or x[1] not in L]
            if bad_fixed:
                viol.append({"key": "%s:unlisted-violation-fixed" % bad_fixed[0][0], "detail": {"listed_rule": rid, "listed_lines": L[:6], "fixed": bad_fixed[:4]}})
            if len(sel) != len(blines) + 1:
                viol.append({"key": "%s:line-count-changed" % rid, "detail": {}})
            else:
                ch = [i + 1 for i, (x, y) in enumerate(zip(blines, sel)) if x.rstrip() != y.rstrip()]
                extra = [i for i in ch if i not in L]
                missing = [i for i in L if i not in ch]
                if extra:
                    viol.append({"key": "%s:extra-line-changed" % rid, "detail": {"listed": L[:6], "changed": ch[:6], "line": extra[0], "before": blines[extra[0] - 1][:100], "after": sel[extra[0] - 1][:100]}})
                elif missing:
                    # a listed line that does not change: compare with what the full r-fix does there
                    if len(full) == len(sel) and any(full[i - 1].rstrip() != sel[i - 1].rstrip() for i in missing):
                        viol.append({"key": "%s:listed-line-not-fixed" % rid, "detail": {"listed": L[:6], "changed": ch[:6], "line": missing[0]}})
                elif len(full) == len(sel) and any(full[i - 1].rstrip() != sel[i - 1].rstrip() for i in L):
                    i = [i for i in L if full[i - 1].rstrip() != sel[i - 1].rstrip()][0]
                    viol.append({"key": "%s:listed-line-fixed-differently-from-full-fix" % rid, "detail": {"line": i, "selected": sel[i - 1][:100], "full": full[i - 1][:100]}})
    except harness.CpuTimeout:
        raise
    except Exception as e:
        import traceback

        return {"status": "crash", "detail": repr(e)[:200], "frame": fixrun.vsg_frame(traceback.format_exc())}
    out["violations"] = viol
    return out


def _cli_empty(case, text):
    style, dicts = cfgpool.pool_entry(case["cfg"])
    d = os.path.join(vsgapi.scratch(), "c20cli_%d" % harness.stable_hash(json.dumps(case, sort_keys=True)))
    os.makedirs(d, exist_ok=True)
    try:
        target = os.path.join(d, "case.vhd")
        with open(target, "w") as f:
            f.write(text + "\n")
        st0 = os.stat(target)
        fo = os.path.join(d, "fixonly.json")
        with open(fo, "w") as f:
            json.dump({"fix": {"rule": {}}}, f)
        args = ["-f", target, "-p", "1", "--fix", "--fix_only", fo]
        if style:
            args += ["--style", style]
        if dicts:
            args += ["-c"] + [vsgapi.write_config_file(x) for x in dicts]
        rc, so, se = vsgapi.run_cli(args, cwd=d)
        st1 = os.stat(target)
        with open(target) as f:
            same = f.read() == text + "\n"
        return {"rc": rc, "same_bytes": same, "same_inode": st0.st_ino == st1.st_ino and st0.st_mtime_ns == st1.st_mtime_ns, "tb": "Traceback" in se}
    finally:
        shutil.rmtree(d, ignore_errors=True)


def _cases(tier, seed):
    rng = random.Random(seed)
    base = fixrun.universe(tier, seed, 0, 0, full=True, gen=False)
    n = {"all": 250, "empty": 150, "subset": 900} if tier == "quick" else {"all": 2500, "empty": 1000, "subset": 5000}
    cases = []
    for mode in ("all", "empty", "subset"):
        for c in harness.sample(rng, base, n[mode]):
            c = dict(c, mode=mode, salt=rng.randrange(3))
            cases.append(c)
    ncli = 16 if tier == "quick" else 100
    for c in rng.sample([c for c in cases if c["mode"] == "empty"], ncli):
        c["cli"] = True
    return cases


def main(tier):
    t0 = time.time()
    seed = harness.seed()
    cases = _cases(tier, seed)
    results = harness.run_cases("props.c20", cases, cpu=600, wall=2400)
    V = harness.Verdict(PROP)
    stats = {"all": 0, "empty": 0, "subset": 0, "cli": 0, "crash(C19)": 0, "subset_rules": set(), "skip_reasons": {}}
    nontriv = set()
    for c, r in zip(cases, results):
        st = r.get("status", "ok")
        if st in ("harness_error", "worker_died", "inconclusive", "hang"):
            V.note_inconclusive("%s %s %s" % (fixrun.case_name(c), st, str(r.get("detail"))[:300]))
            continue
        if st == "crash":
            stats["crash(C19)"] += 1
            continue
        if st != "ok":
            stats["skip_reasons"][r.get("why", st)] = stats["skip_reasons"].get(r.get("why", st), 0) + 1
            continue
        stats[r["mode"]] += 1
        if r.get("rule"):
            stats["subset_rules"].add(r["rule"])
        if r.get("changed"):
            nontriv.add("%s|%s|%s" % (fixrun.case_name(c), c["mode"], c.get("salt")))
        for v in r["violations"]:
            V.violation(v["key"], c, v["detail"])
        cli = r.get("cli")
        if cli and not cli["tb"]:
            stats["cli"] += 1
            if not cli["same_bytes"] or not cli["same_inode"]:
                V.violation("empty-selection:cli-file-touched", c, cli)
    if stats["subset"] < 80 or stats["all"] < 80:
        V.note_inconclusive("too little observed: %s" % {k: v for k, v in stats.items() if isinstance(v, int)})
    stats["subset_rules"] = len(stats["subset_rules"])
    rc = V.finish()
    harness.write_evidence(
        PROP,
        tier,
        "exploration",
        {
            "evaluations": len(cases),
            "distinct_nontrivial": len(nontriv),
            "rule": "all: every rule listed with 'all' vs plain fix (non-trivial when the fix changes the text); empty: empty selection; subset: one line-local rule with a random half of its reported lines on an input stabilised under phases 1-3; distinct by (input, variant, config, mode, salt)",
            "samples": [{"case": c, "result": {k: v for k, v in r.items() if k not in ("violations",)}} for c, r in list(zip(cases, results))[:1] + list(zip(cases, results))[-3:]],
            "counters": stats,
            "known_findings_hit": sorted(V.known_hit),
            "inconclusive": V.inconclusive[:10],
        },
        time.time() - t0,
        len(V.unknown),
        assumptions=["line-local rule = documented whitespace/indent/alignment/case and not structure (C07 monitors that such a fix changes exactly its reported lines)"],
    )
    return rc


def replay(path):
    with open(path) as f:
        d = json.load(f)
    res = run_case(d["case"])
    print(json.dumps(res, indent=1, default=str)[:4000])
    vsgapi.cleanup_scratch()
    cli = res.get("cli")
    if res.get("violations") or (cli and not cli["tb"] and (not cli["same_bytes"] or not cli["same_inode"])):
        print("VIOLATION property=%s replay=%s" % (PROP, path))
        return 1
    return 0
