"""C01 — fixing never changes what the VHDL means.

Monitors on real fix runs (every rule in the context of all other rules), lib/fixmon.py:
 M1 per application: code(before) -> code(after) of every rule.fix() and of every non-rule mutation
    (fix_blank_lines, fix_trailing_whitespace, set_token_indent, update_token_map) obeys the
    rule's edit contract (identity for all but the documented structural rules; lib/effects.py);
 M2 chain/conservation: the text before each event equals the text after the previous one (a change
    outside a monitored application breaks the chain); the chain starts at the input and ends at the
    model, so code(input) -> code(output) is a composition of validated edits;
 M3 boundary (props/c08 observes the CLI side): the written file is the model's text.
code() comes from the independent lexer applied to the emitted *text*, so glued tokens and
comments swallowing code are visible."""
from lib import fixmon

PROP = "C01"


def run_case(case):
    return fixmon.run(case, {PROP})


def main(tier):
    return fixmon.drive(
        PROP,
        "props.c01",
        tier,
        9500,
        40000,
        rule_text='one evaluation per (input, variant, configuration) monitored fix run from the finite universe; non-trivial = the two lexers agree on the input and at least one rule changed the text; distinct by case description',
        assumptions=["independent lexer (lib/vlex.py) defines code tokens; inputs on which it disagrees with VSG's own parse are skipped (counted), never judged", 'edit contracts per rule are derived from the rule documentation (lib/effects.py RULE_CONTRACT)'],
        min_nontrivial=200,
        universe_kw={},
    )


def replay(path):
    return fixmon.replay(PROP, path)
