"""C01 — fixing never changes what the VHDL means.

Monitors on real fix runs (every rule in the context of all other rules):
 M1 per application: code(before) -> code(after) of every rule.fix() and of every non-rule
    mutation (fix_blank_lines, fix_trailing_whitespace, set_token_indent, update_token_map) obeys
    the rule's edit contract (identity for all but the documented structural rules);
 M2 chain/conservation: the text before each event equals the text after the previous one (a
    change outside a monitored application breaks the chain) and code(input) -> code(final)
    only differs by permitted edits;
 M3 boundary: for a sample driven through the real CLI, the file written by --fix holds exactly
    the text of the monitored in-memory model.
code() comes from the independent lexer applied to the emitted *text*.
"""
import json
import os
import shutil
import time

from lib import cfgpool, effects, fixrun, harness, monitors, vlex, vsgapi

PROP = "C01"


def lexer_agrees(oFile, text):
    """Two independent lexers must agree on the input before either is believed."""
    from vsg import parser
    from vsg.token import delimited_comment

    skip = (parser.whitespace, parser.carriage_return, parser.blank_line, parser.comment, delimited_comment.beginning, delimited_comment.text, delimited_comment.ending, parser.preprocessor)
    vs = "".join(t.get_value() for t in oFile.lAllObjects if not isinstance(t, skip) and not t.get_value().startswith("--"))
    mine = "".join(t for k, t in vlex.segs(text) if k not in vlex.NONCODE)
    return vs == mine


def run_case(case):
    text = fixrun.materialise(case)
    r = fixrun.setup(case, text)
    if isinstance(r, dict):
        return r
    oFile, oRules, a, oConfig = r
    if not lexer_agrees(oFile, text):
        return {"status": "lexer_disagrees"}
    sink = effects.EffectSink()
    inst = monitors.Instrument(oFile, oRules, [sink])
    sink.start(oFile)
    crash = None
    try:
        oRules.fix()
    except harness.CpuTimeout:
        raise
    except Exception as e:
        import traceback

        crash = {"exc": type(e).__name__, "frame": fixrun.vsg_frame(traceback.format_exc())}
    sink.finish(oFile)
    viol = []
    changed_rules = set()
    for ev in sink.events:
        if not ev["changed"]:
            continue
        changed_rules.add(ev["rule"])
        bad = effects.check_rule_code_effect(ev["rule"], ev["before"], ev["after"])
        if bad:
            cb, ca = vlex.code(ev["before"]), vlex.code(ev["after"])
            viol.append({"key": "%s:%s" % (ev["rule"], bad["class"]), "detail": {"rule": ev["rule"], "phase": ev["phase"], "bad": bad, "first_diff": effects.first_diff(cb, ca)}})
    for cbk in sink.chain_breaks:
        cb, ca = vlex.code(cbk["before"]), vlex.code(cbk["after"])
        if cb != ca:
            viol.append({"key": "outside-any-application:code-changed", "detail": {"where": cbk["where"], "first_diff": effects.first_diff(cb, ca)}})
    # end to end: by transitivity.  Every step's (before, after) was validated (M1), the text chain has
    # no gap (M2), so code(input) -> code(final) is a composition of permitted edits.  Assert the
    # two ends of the chain really are the input and the final model.
    ci, cf = vlex.code(sink.initial), vlex.code(sink.last)
    if sink.initial.rstrip("\n") != text.rstrip("\n") and vlex.code(text) != ci:
        viol.append({"key": "chain:start-is-not-the-input", "detail": effects.first_diff(vlex.code(text), ci)})
    if monitors.snap(oFile) != sink.last:
        viol.append({"key": "chain:end-is-not-the-model", "detail": {}})
    res = {
        "violations": viol,
        "changed_rules": sorted(changed_rules),
        "n_events": len(sink.events),
        "fix_calls": sink.fix_calls,
        "code_len": len(ci),
        "code_changed": ci != cf,
        "text_changed": sink.initial != sink.last,
        "crash": crash,
        "reach": dict(inst.reach),
    }
    if case.get("cli") and not crash:
        res["cli"] = _cli_boundary(case, text, sink.last)
    return res


def _cli_boundary(case, text, model_text):
    style, dicts = cfgpool.pool_entry(case.get("cfg", "none"))
    d = os.path.join(vsgapi.scratch(), "c01cli_%d" % harness.stable_hash(json.dumps(case, sort_keys=True)))
    os.makedirs(d, exist_ok=True)
    try:
        target = os.path.join(d, "case.vhd")
        with open(target, "w", encoding="utf-8") as f:
            f.write(text + "\n")
        args = ["-f", target, "--fix", "-p", "1"]
        if style:
            args += ["--style", style]
        if dicts:
            args += ["-c"] + [vsgapi.write_config_file(x) for x in dicts]
        rc, so, se = vsgapi.run_cli(args, cwd=d)
        with open(target, encoding="utf-8") as f:
            disk = f.read()
        exp = model_text if model_text.endswith("\n") else model_text + "\n"
        # text(M) as written by write_vhdl_file: "\n".join(lines) + "\n"; snap() already ends with "\n"
        return {"rc": rc, "same": disk == exp, "code_same": vlex.code(disk) == vlex.code(exp), "traceback": se[-500:] if "Traceback" in se else None}
    finally:
        shutil.rmtree(d, ignore_errors=True)


def _cases(tier, seed):
    cases = fixrun.universe(tier, seed, 700, 12000)
    import random

    rng = random.Random(seed + 1)
    ncli = 24 if tier == "quick" else 200
    for c in rng.sample(cases, min(ncli, len(cases))):
        c["cli"] = True
    return cases


def main(tier):
    t0 = time.time()
    seed = harness.seed()
    cases = _cases(tier, seed)
    results = harness.run_cases("props.c01", cases, cpu=400, wall=1800)
    V = harness.Verdict(PROP)
    stats = {"lexer_disagrees": 0, "rejected": 0, "skip": 0, "crashes(C19)": 0, "cli_checked": 0, "events": 0, "fix_calls": 0, "code_changed_runs": 0}
    nontriv = set()
    changed_rules = {}
    for c, r in zip(cases, results):
        st = r.get("status", "ok")
        if st in ("harness_error", "worker_died", "inconclusive", "hang"):
            if st == "hang":
                continue  # C19's business
            V.note_inconclusive("%s %s %s" % (fixrun.case_name(c), st, str(r.get("detail"))[:300]))
            continue
        if st != "ok":
            stats[st] = stats.get(st, 0) + 1
            continue
        stats["events"] += r["n_events"]
        stats["fix_calls"] += r["fix_calls"]
        if r.get("crash"):
            stats["crashes(C19)"] += 1
        if r["code_changed"]:
            stats["code_changed_runs"] += 1
        if r["text_changed"]:
            nontriv.add(fixrun.case_name(c))
        for rid in r["changed_rules"]:
            changed_rules[rid] = changed_rules.get(rid, 0) + 1
        for v in r["violations"]:
            V.violation(v["key"], c, v["detail"])
        if "cli" in r:
            stats["cli_checked"] += 1
            if r["cli"].get("traceback"):
                pass  # C19
            elif not r["cli"]["same"]:
                V.violation("cli-file-differs-from-model" + (":code" if not r["cli"]["code_same"] else ":layout"), c, r["cli"])
    if len(nontriv) < 50 or stats["fix_calls"] < 10000:
        V.note_inconclusive("too little observed: %d changing runs, %d fix calls" % (len(nontriv), stats["fix_calls"]))
    rc = V.finish()
    code_editing = sorted(r for r in changed_rules if r in effects.RULE_CONTRACT)
    harness.write_evidence(
        PROP,
        tier,
        "exploration",
        {
            "evaluations": len(cases),
            "distinct_nontrivial": len(nontriv),
            "rule": "one evaluation per (input, variant, configuration) monitored fix run; non-trivial = at least one rule changed the text; distinct by case description",
            "samples": [{"case": c, "changed_rules": r.get("changed_rules", [])[:12], "events": r.get("n_events")} for c, r in list(zip(cases, results))[:4]],
            "counters": stats,
            "distinct_rules_observed_changing_text": len(changed_rules),
            "code_editing_rules_observed": code_editing,
            "config_pool": sorted({c.get("cfg") for c in cases}),
            "known_findings_hit": sorted(V.known_hit),
            "inconclusive": V.inconclusive[:10],
        },
        time.time() - t0,
        len(V.unknown),
        assumptions=[
            "independent lexer (lib/vlex.py) defines code tokens; inputs on which it disagrees with VSG's own parse are skipped (counted), never judged",
            "edit contracts per rule are derived from the rule documentation (lib/effects.py RULE_CONTRACT)",
        ],
    )
    return rc


def replay(path):
    with open(path) as f:
        d = json.load(f)
    res = run_case(d["case"])
    print(json.dumps({k: v for k, v in res.items() if k != "changed_rules"}, indent=1, default=str)[:4000])
    vsgapi.cleanup_scratch()
    if res.get("violations"):
        print("VIOLATION property=%s replay=%s" % (PROP, path))
        return 1
    return 0
