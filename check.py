#!/venv/bin/python
"""verif/check.py <ID> [--tier quick|thorough] [--replay PATH]

Decides property <ID> (C01..C20) of the VSG working tree in /repo by runtime
monitoring.  Exit 0: held on everything observed (KNOWN-FINDING lines allowed);
exit 1 + `VIOLATION property=<ID> replay=<path>`: violated; exit 2: inconclusive.
"""
import importlib
import os
import sys

HERE = os.path.dirname(os.path.abspath(__file__))
sys.path.insert(0, HERE)
REPO = os.environ.get("VSG_REPO", "/repo")
sys.path.insert(1, REPO)
os.environ.setdefault("PYTHONHASHSEED", "0")


def main(argv):
    if len(argv) >= 2 and argv[0] == "--worker":
        from lib import harness

        harness.worker_main(argv[1])
        return 0
    if not argv:
        print(__doc__)
        return 64
    prop = argv[0].upper()
    tier = os.environ.get("VERIF_TIER", "quick")
    replay = None
    i = 1
    while i < len(argv):
        if argv[i] == "--tier":
            tier = argv[i + 1]
            i += 2
        elif argv[i] == "--replay":
            replay = argv[i + 1]
            i += 2
        else:
            print("unknown argument", argv[i])
            return 64
    if os.environ.get("PYTHONHASHSEED") != "0" :
        os.environ["PYTHONHASHSEED"] = "0"
    mod = importlib.import_module("props." + prop.lower())
    if replay:
        return mod.replay(replay)
    return mod.main(tier)


if __name__ == "__main__":
    sys.exit(main(sys.argv[1:]))
