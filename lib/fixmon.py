"""One monitored fix run, many oracles.

run(case, want) performs the real fix run of `case` once with the monitors of the requested
properties attached and returns, per property, the violations (mechanism key + witness) and
whether the case was non-trivial for that property.  Properties served:
  C01 C02 C03 C07 (EffectSink events), C10 (re-fix experiment on a restored copy), C18 (index /
  region-of-interest invariants), C08 (model vs re-parse), C09 (second fix), C19a (crash / hang).
Each property's check runs only its own monitors; tools/sweep.py runs all at once.
"""
import copy
import itertools
import json
import os
import time
import traceback

from lib import effects, fixrun, harness, monitors, vlex, vsgapi

FIXRUN_PROPS = ("C01", "C02", "C03", "C07", "C08", "C09", "C10", "C18", "C19")

# ----------------------------------------------------------------------------- C18 sink


class C18Sink(monitors.Sink):
    def __init__(self):
        self.v = []
        self.n = {"map_checks": 0, "toi_checked": 0, "updates": 0, "nonempty_updates": 0, "remap_false_updates": 0, "splices_checked": 0}
        self.extractors = set()
        self.analysed = {}

    def _add(self, key, detail):
        if len(self.v) < 40:
            self.v.append({"key": key, "detail": detail})

    def _map_ok(self, oFile):
        from vsg.token_map import process_tokens

        self.n["map_checks"] += 1
        return process_tokens(oFile.lAllObjects).dMap == oFile.oTokenMap.dMap

    def analyze_before(self, rule, oFile):
        if not self._map_ok(oFile):
            self._add("%s:stale-map-at-analyze" % rule.unique_id, {"rule": rule.unique_id})

    def toi(self, rule, oFile, name, result):
        from vsg import parser
        from vsg.vhdlFile.extract import tokens as ext

        rid = rule.unique_id if rule is not None else "<none>"
        self.extractors.add(name)
        items = result if isinstance(result, list) else [result]
        L = oFile.lAllObjects
        for t in items:
            if not isinstance(t, ext.New):
                continue
            self.n["toi_checked"] += 1
            lt = [x for x in t.get_tokens() if not isinstance(x, parser.beginning_of_file)]
            s = t.get_start_index()
            who = rid if name == "_get_tokens_of_interest" else name
            if not isinstance(s, int):
                self._add("%s:start-not-int" % who, {"rule": rid, "via": name, "start": repr(s)})
                continue
            sl = L[s : s + len(lt)]
            if s < 0 or len(sl) != len(lt) or any(a is not b for a, b in zip(sl, lt)):
                self._add("%s:not-slice" % who, {"rule": rid, "via": name, "start": s, "toi": [x.get_value() for x in lt[:6]], "list_at_start": [x.get_value() for x in sl[:6]]})
                continue
            if t.iEndIndex != s + len(lt):
                self._add("%s:end-mismatch" % who, {"rule": rid, "via": name, "start": s, "end": t.iEndIndex, "len": len(lt)})

    def violation_added(self, rule, violation, accepted):
        if accepted:
            try:
                self.analysed[id(violation)] = (violation, set(id(t) for t in violation.oTokens.get_tokens()))
            except Exception:
                pass

    def fix_before(self, rule, oFile):
        self.analysed = {}

    def update_before(self, rule, oFile, lUpdates, bUpdateMap):
        from vsg import parser

        self.n["updates"] += 1
        model = list(oFile.lAllObjects)
        rid = rule.unique_id if rule is not None else "<none>"
        ok = True
        inserted = set()
        for u in lUpdates[::-1]:
            s, e = u.oTokens.iStartIndex, u.oTokens.iEndIndex
            if not isinstance(s, int) or not isinstance(e, int) or s < 0 or e < s or e > len(model):
                self._add("%s:update-range-out-of-list" % rid, {"rule": rid, "start": repr(s), "end": repr(e), "len": len(model)})
                ok = False
                break
            rec = self.analysed.get(id(u))
            if rec is not None:
                allowed = rec[1]
                stray = [t for t in model[s:e] if id(t) not in allowed and id(t) not in inserted]
                self.n["splices_checked"] += 1
                if stray:
                    self._add("%s:overwrites-unanalysed-token" % rid, {"rule": rid, "start": s, "end": e, "stray": [t.get_value() for t in stray[:5]]})
            new = [x for x in u.get_tokens() if not isinstance(x, parser.beginning_of_file)]
            inserted.update(id(x) for x in new)
            model[s:e] = new
        return (rid, model if ok else None, len(lUpdates), bUpdateMap)

    def update_after(self, rule, oFile, lUpdates, bUpdateMap, ctx):
        rid, model, n, bUpdateMap = ctx
        if n:
            self.n["nonempty_updates"] += 1
        if model is not None:
            L = oFile.lAllObjects
            if len(L) != len(model) or any(a is not b for a, b in zip(L, model)):
                self._add("%s:splice-differs-from-model" % rid, {"rule": rid, "len_real": len(L), "len_model": len(model)})
        if n and not bUpdateMap:
            self.n["remap_false_updates"] += 1
            if not self._map_ok(oFile):
                self._add("%s:stale-map-after-remap-false-update" % rid, {"rule": rid})


# ----------------------------------------------------------------------------- C10 sink


def _viol_list(rule):
    return sorted((v.get_line_number(), v.get_solution() or "") for v in rule.violations)


class C10Sink(monitors.Sink):
    """Immediately after a rule.fix() that repaired something: on the live model, analyse again (V2),
    fix again, analyse again (V3); then restore a deep copy taken before the experiment so the
    observed run is not perturbed.  Oracle: the second fix changes nothing and V3 == V2."""

    def __init__(self):
        self.inst = None
        self.v = []
        self.n = {"experiments": 0, "residue_stable": 0}
        self.depth = 0
        self.fixed_n = {}

    def fix_before(self, rule, oFile):
        self.depth += 1

    def update_before(self, rule, oFile, lUpdates, bUpdateMap):
        if rule is not None and self.depth == 1:
            self.fixed_n[id(rule)] = len(lUpdates)

    def fix_after(self, rule, oFile, ctx):
        self.depth -= 1
        if self.depth != 0:
            return
        n = self.fixed_n.pop(id(rule), 0)
        if not n:
            return
        self.n["experiments"] += 1
        inst = self.inst
        saved_list = copy.deepcopy(oFile.lAllObjects)
        saved_hv = rule.had_violations
        t1 = monitors.snap(oFile)
        inst.suspended = True
        try:
            rule.clear_violations()
            inst.real[id(rule)]["analyze"](oFile)
            v2 = _viol_list(rule)
            rule.clear_violations()
            inst.real[id(rule)]["fix"](oFile, None)
            t2 = monitors.snap(oFile)
            rule.clear_violations()
            inst.real[id(rule)]["analyze"](oFile)
            v3 = _viol_list(rule)
            rule.clear_violations()
            if t2 != t1:
                l1, l2 = t1.split("\n"), t2.split("\n")
                d = [(i + 1, a, b) for i, (a, b) in enumerate(itertools.zip_longest(l1, l2)) if a != b][:2]
                self.v.append({"key": "%s:second-fix-changes" % rule.unique_id, "detail": {"rule": rule.unique_id, "diff": d, "left_after_first_fix": v2[:3]}})
            elif v2 != v3:
                self.v.append({"key": "%s:residue-unstable" % rule.unique_id, "detail": {"rule": rule.unique_id, "v2": v2[:3], "v3": v3[:3]}})
            elif v2:
                self.n["residue_stable"] += 1
        except harness.CpuTimeout:
            raise
        except Exception as e:
            self.v.append({"key": "%s:re-analysis-raises:%s" % (rule.unique_id, type(e).__name__), "detail": {"rule": rule.unique_id, "trace": traceback.format_exc()[-600:]}})
        finally:
            inst.suspended = False
            oFile.lAllObjects = saved_list
            oFile.update_token_map()
            rule.clear_violations()
            rule.had_violations = saved_hv


# ----------------------------------------------------------------------------- evaluators on EffectSink events

WS_ICONS = {"whitespace", "blank_line", "indent", "alignment"}


def _strip_ws(t):
    return t.replace(" ", "").replace("\t", "").replace("\n", "").replace("\r", "")


def _lexemes(t):
    return [(k, x) for k, x in vlex.segs(t) if k != "ws"]


def _lexemes_c(t):
    """lexemes with blanks inside comments ignored (comment rules may normalise them)"""
    return [(k, "".join(x.split()) if k in ("lcom", "bcom", "pre") else x) for k, x in vlex.segs(t) if k != "ws"]


def doc_class(rule_id):
    d = effects.doc_classes().get(rule_id)
    if not d:
        return None
    return d


def eval_c03(ev, cfg_rule):
    """cfg_rule: dict(fixable, disable, severity_type) of the live rule. Returns effect-class string or None."""
    if ev["kind"] == "nonrule":
        return None
    rid = ev["rule"]
    d = doc_class(rid)
    b, a = ev["before"], ev["after"]
    if not ev["changed"]:
        return None
    must_not_change = None
    if ev["kind"] == "analyze":
        must_not_change = "analysis-only(warning severity)"
    elif not cfg_rule["fixable"]:
        must_not_change = "fixable-false"
    elif cfg_rule["severity_type"] != "error":
        must_not_change = "warning-severity"
    elif d and ("unfixable" in d["icons"]):
        must_not_change = "documented-unfixable"
    elif d and ("naming" in d["icons"] or d["phase"] == 7):
        must_not_change = "naming-phase7"
    if must_not_change:
        return "changed-file-though-" + must_not_change
    if not d:
        return None
    icons = d["icons"]
    if icons & WS_ICONS and "structure" not in icons:
        if _strip_ws(b) != _strip_ws(a):
            return "non-whitespace-text-changed"
        lb, la = _lexemes_c(b), _lexemes_c(a)
        if lb != la:
            if len(la) > len(lb):
                return None  # separator restored between glued tokens (the glue is reported at its culprit by C01)
            return "tokens-glued-or-comment-absorbed"
        return None
    if "case" in icons:
        if b.lower() != a.lower():
            return "more-than-letter-case-changed"
        if [len(x) for x in b.split("\n")] != [len(x) for x in a.split("\n")]:
            return "line-length-changed"
        lb, la = _lexemes(b), _lexemes(a)
        for (kb, xb), (ka, xa) in zip(lb, la):
            if xb != xa and kb in ("str", "chr", "ext", "lcom", "bcom", "pre"):
                return "literal-or-comment-case-changed:" + kb
        return None
    if "structure" in icons and d["phase"] != 1:
        if vlex.code(b) != vlex.code(a):
            return "late-structure-rule-changed-code"
        return None
    return None


def eval_c07(ev):
    """None / effect class for line-locality of one application (documented whitespace/indent/alignment/case rules)."""
    if ev["kind"] != "rule":
        return None, None
    d = doc_class(ev["rule"])
    if not d:
        return None, None
    icons = d["icons"]
    if "structure" in icons or not (icons & {"whitespace", "indent", "alignment", "case"}):
        return None, None
    if d["phase"] not in (2, 4, 5, 6):
        return None, None
    lb, la = ev["before"].split("\n"), ev["after"].split("\n")
    rep = set(x[0] for x in ev["fixed"])
    if any((not isinstance(r, int)) or r < 1 or r > len(lb) - 1 for r in rep):
        return "reported-line-outside-file", {"reported": sorted(rep, key=str)[:5], "lines": len(lb) - 1}
    if len(lb) != len(la):
        return "line-count-changed", {"before": len(lb), "after": len(la)}
    ch = set(i + 1 for i, (x, y) in enumerate(zip(lb, la)) if x != y)
    if ch == rep:
        return None, None
    det = {"reported": sorted(rep)[:6], "changed": sorted(ch)[:6]}
    only_rep = sorted(rep - ch)
    only_ch = sorted(ch - rep)
    if only_ch:
        det["line"] = only_ch[0]
        det["before"] = lb[only_ch[0] - 1][:120]
        det["after"] = la[only_ch[0] - 1][:120]
    if only_ch and only_rep:
        return "changed-and-reported-lines-differ", det
    if only_ch:
        return "changed-not-reported", det
    return "reported-not-changed", det


# ----------------------------------------------------------------------------- C08 / C09 helpers


def _model(oFile):
    return [(vsgapi.token_class(t), t.get_value(), t.get_indent()) for t in oFile.lAllObjects]


def _fresh(text, a, oConfig):
    return vsgapi.build(text.split("\n"), a, oConfig)


def eval_c08(case, oFile, oRules, a, oConfig, events):
    from vsg import exceptions

    out = {"violations": [], "nontrivial": False}
    oRules.clear_violations()
    oRules.check_rules(bAllPhases=False)
    v_end = vsgapi.violations_of(oRules)
    text = monitors.snap(oFile)
    if text.endswith("\n"):
        text = text[:-1]
    m = _model(oFile)
    try:
        f2, r2 = _fresh(text, a, oConfig)
    except exceptions.ClassifyError as e:
        culprit = _c08_culprit(case, a, oConfig, mode="reject")
        out["violations"].append({"key": "%s:output-rejected" % culprit, "detail": {"msg": str(e)[:300]}})
        return out
    except harness.CpuTimeout:
        raise
    except Exception as e:
        culprit = _c08_culprit(case, a, oConfig, mode="reject")
        out["violations"].append({"key": "%s:output-crashes-parser:%s" % (culprit, type(e).__name__), "detail": {"trace": traceback.format_exc()[-600:]}})
        return out
    out["nontrivial"] = True
    m2 = _model(f2)
    if m != m2:
        diff = None
        rv1, rv2 = [t[:2] for t in m], [t[:2] for t in m2]
        if rv1 != rv2:  # roles / values first; indent only when those agree everywhere
            for i, (x, y) in enumerate(itertools.zip_longest(rv1, rv2)):
                if x != y:
                    diff = (i, m[i] if i < len(m) else None, m2[i] if i < len(m2) else None)
                    break
        else:
            for i, (x, y) in enumerate(zip(m, m2)):
                if x != y:
                    diff = (i, x, y)
                    break
        i, x, y = diff
        kind = "len" if x is None or y is None else ("role" if x[0] != y[0] else ("value" if x[1] != y[1] else "indent"))
        ctx = [v for _, v, _ in m[max(0, i - 4) : i + 3]]
        if kind != "indent":
            culprit = _c08_culprit(case, a, oConfig, mode="model")
            what = "%s->%s" % (x[0] if x else None, y[0] if y else None) if kind in ("role", "len") else kind
            out["violations"].append({"key": "%s:model-differs-from-reparse:%s" % (culprit, what), "detail": {"index": i, "model": x, "fresh": y, "context": ctx}})
            return out
        # only cached indent levels differ: name the token class, and go on to compare the reports (a stale
        # indent shows up as a violation the fix run does not report)
        out["violations"].append({"key": "<indent>:model-differs-from-reparse:indent:%s" % x[0], "detail": {"index": i, "model": x, "fresh": y, "context": ctx}})
    r2.check_rules(bAllPhases=False)
    v_fresh = vsgapi.violations_of(r2)
    if v_end != v_fresh:
        d1 = [v for v in v_end if v not in v_fresh][:3]
        d2 = [v for v in v_fresh if v not in v_end][:3]
        rid = (d1 or d2)[0][0]
        out["violations"].append({"key": "%s:report-after-fix-differs-from-fresh-check" % rid, "detail": {"only_after_fix": d1, "only_fresh": d2}})
    return out


def _c08_culprit(case, a, oConfig, mode):
    """Diagnosis pass: replay the run, re-parse after each application that changed the text, name the
    first rule after which the model and its own text diverge."""
    from vsg import exceptions

    text = fixrun.materialise(case)
    try:
        oFile, oRules = vsgapi.build(text.split("\n"), a, oConfig)
    except Exception:
        return "<input>"

    found = []

    class Diag(monitors.Sink):
        def __init__(self):
            self.last = monitors.snap(oFile)

        def _check(self, who):
            if found:
                return
            now = monitors.snap(oFile)
            if now == self.last:
                return
            self.last = now
            t = now[:-1] if now.endswith("\n") else now
            try:
                f2 = vsgapi.parse_only(t.split("\n"), a, oConfig)
            except exceptions.ClassifyError:
                found.append(who)
                return
            except Exception:
                found.append(who)
                return
            if mode == "model":
                m1 = [(vsgapi.token_class(x), x.get_value()) for x in oFile.lAllObjects]
                m2 = [(vsgapi.token_class(x), x.get_value()) for x in f2.lAllObjects]
                if m1 != m2:
                    found.append(who)

        def fix_after(self, rule, oFile_, ctx):
            self._check(rule.unique_id)

        def nonrule_after(self, name, oFile_, ctx):
            self._check("<" + name + ">")

    d = Diag()
    if mode == "model":
        # the input itself must be consistent, otherwise nothing can be attributed
        m1 = [(vsgapi.token_class(x), x.get_value()) for x in oFile.lAllObjects]
    monitors.Instrument(oFile, oRules, [d])
    try:
        oRules.fix()
    except Exception:
        pass
    return found[0] if found else "<unattributed>"


def eval_c09(case, text1, a, oConfig):
    """text1 = result of the first fix. Second fix on a fresh parse must change nothing."""
    from vsg import exceptions

    out = {"violations": [], "nontrivial": False}
    texts = [text1]
    first_changer = None
    for p in range(2, 6):
        t = texts[-1]
        try:
            f, r = _fresh(t, a, oConfig)
        except exceptions.ClassifyError:
            return out  # rejected output is C08's finding
        except harness.CpuTimeout:
            raise
        except Exception:
            return out  # output that crashes the parser: C08 / C19
        sink = effects.EffectSink()
        if p == 2:
            monitors.Instrument(f, r, [sink])
            sink.start(f)
        try:
            r.fix()
        except harness.CpuTimeout:
            raise
        except Exception:
            return out  # C19
        out["nontrivial"] = True
        t2 = monitors.snap(f)
        t2 = t2[:-1] if t2.endswith("\n") else t2
        if p == 2:
            for ev in sink.events:
                if ev["changed"]:
                    first_changer = ev["rule"]
                    break
        if t2 == t:
            if p == 2:
                return out
            cls = "converges-at-pass-%d" % (p - 1)
            break
        if t2 in texts:
            cls = "cycle-of-length-%d" % (len(texts) - texts.index(t2))
            texts.append(t2)
            break
        texts.append(t2)
    else:
        cls = "still-changing-after-5-passes"
    l1, l2 = texts[0].split("\n"), texts[1].split("\n")
    d = [(i + 1, x, y) for i, (x, y) in enumerate(itertools.zip_longest(l1, l2)) if x != y][:2]
    coarse = "cycle" if cls.startswith("cycle") else ("late-convergence" if cls.startswith("converges") else "diverges")
    out["violations"].append({"key": "%s:second-fix-changes:%s" % (first_changer or "<unattributed>", coarse), "detail": {"class": cls, "first_changing_rule_in_pass_2": first_changer, "diff_pass1_pass2": d}})
    return out


# ----------------------------------------------------------------------------- the run


def run(case, want):
    want = set(want)
    res = {"props": {}, "stats": {}}
    text = fixrun.materialise(case)
    r = fixrun.setup(case, text)
    if isinstance(r, dict):
        return r
    oFile, oRules, a, oConfig = r
    lex_ok = True
    if want & {"C01", "C02", "C03"}:
        from props import c01 as _c01

        lex_ok = _lexer_agrees(oFile, text)
    sinks = []
    eff = c18 = c10 = None
    if want & {"C01", "C02", "C03", "C07", "C09", "C08"}:
        eff = effects.EffectSink()
        sinks.append(eff)
    if "C18" in want:
        c18 = C18Sink()
        sinks.append(c18)
    if "C10" in want:
        c10 = C10Sink()
        sinks.append(c10)
    inst = monitors.Instrument(oFile, oRules, sinks, wrap_get=("C18" in want))
    if c10:
        c10.inst = inst
    live = {o.unique_id: o for o in oRules.rules}
    removers = {o.unique_id for o in oRules.rules if _is_remover(o)} if "C02" in want else set()
    disabled = {o.unique_id for o in oRules.rules if o.disable}
    if eff:
        eff.start(oFile)
    crash = None
    t0 = time.process_time()
    try:
        oRules.fix()
    except harness.CpuTimeout:
        res["status"] = "hang"
        res["detail"] = "fix run exceeded the CPU budget"
        res["trace"] = traceback.format_exc()[-1500:]
        return res
    except Exception as e:
        tb = traceback.format_exc()
        crash = {"exc": type(e).__name__, "frame": fixrun.vsg_frame(tb), "trace": tb[-1200:], "rule": inst.rule_now().unique_id if inst.rule_now() else None}
        inst.stack.clear()
    res["stats"]["fix_cpu"] = round(time.process_time() - t0, 3)
    if eff:
        eff.finish(oFile)
    res["crash"] = crash
    text_changed = bool(eff and eff.initial != eff.last)
    res["text_changed"] = text_changed
    changed_rules = sorted({ev["rule"] for ev in eff.events if ev["changed"]}) if eff else []
    res["changed_rules"] = changed_rules
    res["stats"]["fix_calls"] = eff.fix_calls if eff else inst.reach.get("fix", 0)
    res["stats"]["events"] = len(eff.events) if eff else 0

    # Root-cause discipline: once an application has broken the code / comment lexeme sequence (text and
    # model no longer say the same thing), later events of the same run are consequences, not
    # mechanisms of their own.  Events after the first such application are not judged by C01 C02 C03 C07.
    taint_at = None
    if eff and lex_ok and want & {"C01", "C02", "C03", "C07"}:
        for i, ev in enumerate(eff.events):
            if not ev["changed"]:
                continue
            if effects.check_rule_code_effect(ev["rule"], ev["before"], ev["after"]) or c02_compare(ev["rule"], True, vlex.comments(ev["before"]), vlex.comments(ev["after"])) in ("changed", "lost", "duplicated-or-invented", "reordered"):
                taint_at = i
                break
    judged = eff.events[: taint_at + 1] if (eff and taint_at is not None) else (eff.events if eff else [])
    res["stats"]["tainted_runs"] = 1 if taint_at is not None else 0

    if "C19" in want:
        v = []
        if crash:
            v.append({"key": "fix:%s:%s" % (crash["exc"], crash["frame"]), "detail": crash})
        res["props"]["C19"] = {"violations": v, "nontrivial": True}

    if "C01" in want:
        v = []
        if lex_ok:
            for ev in judged:
                if not ev["changed"]:
                    continue
                bad = effects.check_rule_code_effect(ev["rule"], ev["before"], ev["after"])
                if bad:
                    cb, ca = vlex.code(ev["before"]), vlex.code(ev["after"])
                    v.append({"key": "%s:%s" % (ev["rule"], bad["class"]), "detail": {"rule": ev["rule"], "phase": ev["phase"], "bad": bad, "first_diff": effects.first_diff(cb, ca)}})
            for cbk in eff.chain_breaks:
                cb, ca = vlex.code(cbk["before"]), vlex.code(cbk["after"])
                if cb != ca:
                    v.append({"key": "outside-any-application:code-changed", "detail": {"where": cbk["where"], "first_diff": effects.first_diff(cb, ca)}})
            if vlex.code(text) != vlex.code(eff.initial):
                v.append({"key": "chain:start-is-not-the-input", "detail": {}})
            if monitors.snap(oFile) != eff.last:
                v.append({"key": "chain:end-is-not-the-model", "detail": {}})
        res["props"]["C01"] = {"violations": v, "nontrivial": lex_ok and text_changed, "skipped": None if lex_ok else "lexer_disagrees"}

    if "C02" in want:
        v = []
        ncom = 0
        removed = 0
        if lex_ok:
            ncom = len(vlex.comments(eff.initial))
            for ev in judged:
                if not ev["changed"]:
                    continue
                kb, ka = vlex.comments(ev["before"]), vlex.comments(ev["after"])
                cls = c02_compare(ev["rule"], ev["rule"] in removers, kb, ka)
                if cls:
                    cb, ca = vlex.code(ev["before"]), vlex.code(ev["after"])
                    if cb != ca and cls in ("changed", "lost", "duplicated-or-invented"):
                        cls += "+code" + ("-absorbed" if len(ca) < len(cb) else "-released" if len(ca) > len(cb) else "")
                    v.append({"key": "%s:%s" % (ev["rule"], cls), "detail": {"rule": ev["rule"], "phase": ev["phase"], "first_diff": effects.first_diff([x.rstrip() for x in kb], [x.rstrip() for x in ka], 1)}})
                elif len(ka) < len(kb):
                    removed += len(kb) - len(ka)
            for cbk in eff.chain_breaks:
                if [x.rstrip() for x in vlex.comments(cbk["before"])] != [x.rstrip() for x in vlex.comments(cbk["after"])]:
                    v.append({"key": "outside-any-application:comments-changed", "detail": {"where": cbk["where"]}})
        res["props"]["C02"] = {"violations": v, "nontrivial": lex_ok and text_changed and ncom > 0, "n_comments": ncom, "removed_by_allowlisted_rules": removed}

    if "C03" in want:
        v = []
        n_class = {}
        if lex_ok:
            for ev in judged:
                o = live.get(ev["rule"])
                cfg_rule = {"fixable": o.fixable, "disable": o.disable, "severity_type": o.severity.type} if o else {"fixable": True, "disable": False, "severity_type": "error"}
                cls = eval_c03(ev, cfg_rule)
                if ev["changed"] and ev["kind"] == "rule":
                    d = doc_class(ev["rule"])
                    if d:
                        for ic in d["icons"] & (WS_ICONS | {"case", "structure", "naming"}):
                            n_class[ic] = n_class.get(ic, 0) + 1
                if cls:
                    v.append({"key": "%s:%s" % (ev["rule"], cls), "detail": {"rule": ev["rule"], "phase": ev["phase"], "doc": sorted(doc_class(ev["rule"])["icons"]) if doc_class(ev["rule"]) else None, "first_diff": effects.first_diff(ev["before"].split("\n"), ev["after"].split("\n"), 0)}})
            entered_disabled = sorted((eff.entered | eff.analyze_only) & disabled)
            for rid in entered_disabled:
                v.append({"key": "%s:disabled-rule-was-run" % rid, "detail": {"rule": rid}})
        res["props"]["C03"] = {"violations": v, "nontrivial": lex_ok and text_changed, "class_counts": n_class}

    if "C07" in want:
        v = []
        n_apps = 0
        for ev in judged:
            cls, det = eval_c07(ev)
            d = doc_class(ev["rule"])
            if ev["kind"] == "rule" and d and not ("structure" in d["icons"]) and d["icons"] & {"whitespace", "indent", "alignment", "case"} and ev["fixed"]:
                n_apps += 1
            if cls:
                v.append({"key": "%s:%s" % (ev["rule"], cls), "detail": dict(det, rule=ev["rule"])})
        res["props"]["C07"] = {"violations": v, "nontrivial": n_apps > 0, "applications": n_apps}

    if "C10" in want:
        res["props"]["C10"] = {"violations": c10.v, "nontrivial": c10.n["experiments"] > 0, "n": c10.n}

    if "C18" in want:
        # also a check run on the fixed model, as apply_rules does
        if not crash:
            try:
                oRules.clear_violations()
                oRules.check_rules(bAllPhases=True)
            except harness.CpuTimeout:
                raise
            except Exception:
                inst.stack.clear()
        res["props"]["C18"] = {"violations": c18.v, "nontrivial": c18.n["toi_checked"] > 0 and c18.n["nonempty_updates"] > 0, "n": c18.n, "extractors": sorted(c18.extractors)}

    if "C08" in want and not crash:
        inst.suspended = True
        try:
            res["props"]["C08"] = eval_c08(case, oFile, oRules, a, oConfig, eff.events)
        except harness.CpuTimeout:
            raise
        except Exception as e:
            res["props"]["C08"] = {"violations": [], "nontrivial": False, "skipped": "exception in report pass (C19): " + repr(e)[:100]}

    if "C09" in want and not crash:
        t1 = eff.last[:-1] if eff.last.endswith("\n") else eff.last
        res["props"]["C09"] = eval_c09(case, t1, a, oConfig)

    res["reach"] = dict(inst.reach)
    return res


def _lexer_agrees(oFile, text):
    from vsg import parser
    from vsg.token import delimited_comment

    skip = (parser.whitespace, parser.carriage_return, parser.blank_line, parser.comment, delimited_comment.beginning, delimited_comment.text, delimited_comment.ending, parser.preprocessor)
    vs = "".join(t.get_value() for t in oFile.lAllObjects if not isinstance(t, skip) and not t.get_value().startswith("--"))
    mine = "".join(t for k, t in vlex.segs(text) if k not in vlex.NONCODE)
    return vs == mine


# ---- C02 comparison

NORMALISERS = ("comment_", "block_comment_", "whitespace_")
_REMOVER_BASES = ("remove_comments_from_end_of_lines_bounded_by_tokens", "multiline_structure", "multiline_simple_structure")


def _is_remover(rule_obj):
    for c in type(rule_obj).__mro__:
        if c.__module__.rsplit(".", 1)[-1] in _REMOVER_BASES:
            return True
    return False


def _is_subseq(small, big):
    it = iter(big)
    return all(any(x == y for y in it) for x in small)


def c02_compare(rule_id, remover, kb, ka):
    eb, ea = [x.rstrip() for x in kb], [x.rstrip() for x in ka]
    if eb == ea:
        return None
    nb, na = ["".join(x.split()) for x in kb], ["".join(x.split()) for x in ka]
    if nb == na:
        if rule_id.startswith(NORMALISERS) or rule_id.startswith("<"):
            return None
        return "whitespace-inside-comment-changed"
    if remover and len(na) < len(nb) and _is_subseq(na, nb):
        return None
    if len(na) < len(nb) and _is_subseq(na, nb):
        return "lost"
    if len(na) > len(nb) and _is_subseq(nb, na):
        return "duplicated-or-invented"
    if sorted(na) == sorted(nb):
        return "reordered"
    return "changed"


# ----------------------------------------------------------------------------- generic driver


def drive(prop, module, tier, n_quick, n_thorough, rule_text, assumptions, min_nontrivial=50, universe_kw=None, extra_evidence=None, cpu=400, post=None):
    t0 = time.time()
    seed = harness.seed()
    cases = fixrun.universe(tier, seed, n_quick, n_thorough, **(universe_kw or {}))
    results = harness.run_cases(module, cases, cpu=cpu, wall=2400)
    V = harness.Verdict(prop)
    stats = {"fix_calls": 0, "events": 0, "crashes(C19)": 0, "hangs(C19)": 0}
    nontriv = set()
    changed_rules = {}
    agg = {}
    for c, r in zip(cases, results):
        st = r.get("status", "ok")
        if st in ("harness_error", "worker_died", "inconclusive"):
            V.note_inconclusive("%s %s %s" % (fixrun.case_name(c), st, (str(r.get("detail")) + " " + str(r.get("trace", ""))[-300:])[:500]))
            continue
        if st == "hang":
            stats["hangs(C19)"] += 1
            if prop == "C19":
                V.violation("fix:hang", c, r)
            continue
        if st != "ok":
            stats[st] = stats.get(st, 0) + 1
            continue
        for k, v in r.get("stats", {}).items():
            if isinstance(v, (int, float)):
                stats[k] = round(stats.get(k, 0) + v, 3)
        if r.get("crash"):
            stats["crashes(C19)"] += 1
        p = r["props"].get(prop)
        if p is None:
            continue
        if p.get("skipped"):
            stats["skipped:" + str(p["skipped"])[:40]] = stats.get("skipped:" + str(p["skipped"])[:40], 0) + 1
        if p.get("nontrivial"):
            nontriv.add(fixrun.case_name(c))
        for rid in r.get("changed_rules", []):
            changed_rules[rid] = changed_rules.get(rid, 0) + 1
        for v in p["violations"]:
            V.violation("%s|%s" % (v["key"], fixrun.variant_class(c)), c, v["detail"])
        for k, v in p.items():
            if k in ("violations", "nontrivial", "skipped"):
                continue
            if isinstance(v, (int, float)):
                agg[k] = agg.get(k, 0) + v
            elif isinstance(v, dict):
                d = agg.setdefault(k, {})
                for kk, vv in v.items():
                    if isinstance(vv, (int, float)):
                        d[kk] = d.get(kk, 0) + vv
            elif isinstance(v, list):
                s = agg.setdefault(k, set())
                s.update(v)
    if len(nontriv) < min_nontrivial:
        V.note_inconclusive("only %d non-trivial cases were observed (floor %d)" % (len(nontriv), min_nontrivial))
    if post:
        post(V, agg, stats)
    rc = V.finish()
    cov = {
        "evaluations": len(cases),
        "distinct_nontrivial": len(nontriv),
        "rule": rule_text,
        "samples": [{"case": c, "changed_rules": r.get("changed_rules", [])[:10], "monitor": {k: v for k, v in (r.get("props", {}).get(prop) or {}).items() if k != "violations"}} for c, r in list(zip(cases, results))[:4]],
        "counters": stats,
        "monitor_totals": {k: (sorted(v) if isinstance(v, set) else v) for k, v in agg.items()},
        "distinct_rules_observed_changing_text": len(changed_rules),
        "universe_size": fixrun.universe_size(tier),
        "config_pool_entries_used": sorted({c.get("cfg") for c in cases}),
        "known_findings_hit": sorted(V.known_hit),
        "inconclusive": V.inconclusive[:10],
    }
    if extra_evidence:
        cov.update(extra_evidence(cases, results))
    harness.write_evidence(prop, tier, "exploration", cov, time.time() - t0, len(V.unknown), assumptions)
    return rc


def replay(prop, path):
    with open(path) as f:
        d = json.load(f)
    res = run(d["case"], {prop})
    p = (res.get("props") or {}).get(prop, {})
    print(json.dumps({"status": res.get("status", "ok"), "crash": res.get("crash"), prop: p}, indent=1, default=str)[:5000])
    vsgapi.cleanup_scratch()
    if p.get("violations") or (prop == "C19" and res.get("status") == "hang"):
        print("VIOLATION property=%s replay=%s" % (prop, path))
        return 1
    return 0
