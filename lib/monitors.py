"""Run-time monitors attached to the real objects from outside (no source hooks).

instrument(oFile, oRules, sink) wraps
  * every rule *instance*: fix, analyze, _get_tokens_of_interest   (11 rule classes override
    analyze, so patching vsg.rule.Rule would miss them),
  * the vhdlFile instance: update, fix_blank_lines, fix_trailing_whitespace, update_token_map,
    set_token_indent and every get_* extraction method (regions of interest),
and forwards events to `sink` (an object with optional callbacks).  All wrappers call the real
bound method; they never change arguments or results.  Each wrapper bumps a reach counter so a
run in which a deciding monitor never fired is reported as inconclusive, not as 'held'.
"""
import collections


def snap(oFile):
    """Exactly the text get_lines() would give, joined with newlines (carriage_return.value == '\\n')."""
    return "".join([t.value for t in oFile.lAllObjects])


class Sink:
    """Base class: override what you need."""

    def fix_before(self, rule, oFile):
        pass

    def fix_after(self, rule, oFile, ctx):
        pass

    def analyze_before(self, rule, oFile):
        pass

    def analyze_after(self, rule, oFile, ctx):
        pass

    def toi(self, rule, oFile, name, result):
        pass

    def update_before(self, rule, oFile, lUpdates, bUpdateMap):
        pass

    def update_after(self, rule, oFile, lUpdates, bUpdateMap, ctx):
        pass

    def violation_added(self, rule, violation, accepted):
        pass

    def nonrule_before(self, name, oFile):
        pass

    def nonrule_after(self, name, oFile, ctx):
        pass


class Instrument:
    def __init__(self, oFile, oRules, sinks, wrap_get=False):
        self.oFile = oFile
        self.oRules = oRules
        self.sinks = list(sinks)
        self.reach = collections.Counter()
        self.stack = []  # (kind, rule) of the wrappers currently executing
        self.suspended = False  # monitors that experiment on the live model switch the sinks off meanwhile
        self.real = {}  # id(rule) -> {"fix":..., "analyze":...} the real bound methods
        self._wrap_rules()
        self._wrap_file(wrap_get)

    # -- rules
    def _wrap_rules(self):
        for o in self.oRules.rules:
            self._wrap_rule(o)

    def _wrap_rule(self, o):
        inst = self
        real_fix = o.fix
        real_analyze = o.analyze
        real_toi = getattr(o, "_get_tokens_of_interest", None)

        inst.real[id(o)] = {"fix": real_fix, "analyze": real_analyze}

        def fix(oFile, dFixOnly=None):
            if inst.suspended:
                return real_fix(oFile, dFixOnly)
            inst.reach["fix"] += 1
            inst.stack.append(("fix", o))
            ctxs = [s.fix_before(o, oFile) for s in inst.sinks]
            try:
                return real_fix(oFile, dFixOnly)
            finally:
                inst.stack.pop()
                for s, c in zip(inst.sinks, ctxs):
                    s.fix_after(o, oFile, c)

        def analyze(oFile):
            if inst.suspended:
                return real_analyze(oFile)
            inst.reach["analyze"] += 1
            inst.stack.append(("analyze", o))
            ctxs = [s.analyze_before(o, oFile) for s in inst.sinks]
            try:
                return real_analyze(oFile)
            finally:
                inst.stack.pop()
                for s, c in zip(inst.sinks, ctxs):
                    s.analyze_after(o, oFile, c)

        def _get_tokens_of_interest(oFile, *a, **k):
            if inst.suspended:
                return real_toi(oFile, *a, **k)
            inst.reach["toi"] += 1
            r = real_toi(oFile, *a, **k)
            for s in inst.sinks:
                s.toi(o, oFile, "_get_tokens_of_interest", r)
            return r

        real_add = o.add_violation

        def add_violation(violation):
            if inst.suspended:
                return real_add(violation)
            inst.reach["add_violation"] += 1
            n = len(o.violations)
            r = real_add(violation)
            acc = len(o.violations) > n
            for s in inst.sinks:
                s.violation_added(o, violation, acc)
            return r

        o.add_violation = add_violation
        o.fix = fix
        o.analyze = analyze
        if real_toi is not None:
            o._get_tokens_of_interest = _get_tokens_of_interest

    def rule_now(self):
        return self.stack[-1][1] if self.stack else None

    # -- file
    def _wrap_file(self, wrap_get):
        inst = self
        f = self.oFile
        real_update = f.update

        def update(lUpdates, bUpdateMap):
            if inst.suspended:
                return real_update(lUpdates, bUpdateMap)
            inst.reach["update"] += 1
            r = inst.rule_now()
            ctxs = [s.update_before(r, f, lUpdates, bUpdateMap) for s in inst.sinks]
            try:
                return real_update(lUpdates, bUpdateMap)
            finally:
                for s, c in zip(inst.sinks, ctxs):
                    s.update_after(r, f, lUpdates, bUpdateMap, c)

        f.update = update
        for name in ("fix_blank_lines", "fix_trailing_whitespace", "update_token_map", "set_token_indent"):
            self._wrap_nonrule(name)
        if wrap_get:
            for name in dir(type(f)):
                if name.startswith("get_") and callable(getattr(f, name)) and name not in _NOT_TOI:
                    self._wrap_get(name)

    def _wrap_nonrule(self, name):
        inst = self
        f = self.oFile
        real = getattr(f, name)

        def w(*a, **k):
            if inst.suspended:
                return real(*a, **k)
            inst.reach[name] += 1
            if inst.stack:  # called by a rule (e.g. update_token_map inside a fix): part of that rule's event
                return real(*a, **k)
            ctxs = [s.nonrule_before(name, f) for s in inst.sinks]
            try:
                return real(*a, **k)
            finally:
                for s, c in zip(inst.sinks, ctxs):
                    s.nonrule_after(name, f, c)

        setattr(f, name, w)

    def _wrap_get(self, name):
        inst = self
        f = self.oFile
        real = getattr(f, name)

        def w(*a, **k):
            r = real(*a, **k)
            if inst.suspended:
                return r
            inst.reach["get"] += 1
            rule = inst.rule_now()
            for s in inst.sinks:
                s.toi(rule, f, name, r)
            return r

        setattr(f, name, w)


_NOT_TOI = {
    "get_lines",
    "get_object_lines",
    "get_line_count",
    "get_token_map",
    "get_indent_map",
    "get_line_count_between_tokens",
    "get_column_of_token_index",
    "get_indent_of_line_at_index",
}
