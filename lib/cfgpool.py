"""Configuration pool (quick tier: fixed and finite) and indexed random configurations
(thorough tier: finite universe rc0..rcN, deterministic in the index).

Only documented option values are produced (docs/configuring_*.rst); `number_of_spaces: 0`
is never generated for a rule whose default is not 0.
"""
import random

from lib import vsgapi

_DB = None


def rule_db():
    """Metadata of every rule object, read from the real rule_list at run time."""
    global _DB
    if _DB is None:
        a, c = vsgapi.make_config()
        f, r = vsgapi.build([""], a, c, configure=False)
        db = {}
        for o in r.rules:
            if o.deprecated:
                continue
            base = ("indent_style", "indent_size", "phase", "disable", "fixable", "severity", "user_error_message")
            db[o.unique_id] = {
                "phase": o.phase,
                "subphase": o.subphase,
                "groups": list(o.groups),
                "fixable": o.fixable,
                "disable": o.disable,
                "remap": o.remap,
                "options": {n: getattr(o, n) for n in o.configuration if n not in base},
                "cls": type(o).__mro__[1].__module__,
            }
        _DB = db
    return _DB


YESNO = (
    "align_left align_paren wrap_at_when align_when_keywords align_else_keywords compact_alignment blank_line_ends_group "
    "comment_line_ends_group include_lines_without_comments separate_generic_port_alignment if_control_statements_ends_group "
    "case_control_statements_ends_group loop_control_statements_ends_group generate_statement_ends_group aggregate_parens_ends_group "
    "ignore_single_line_aggregates ignore_single_line first_paren_new_line last_paren_new_line open_paren_new_line close_paren_new_line "
    "new_line_after_comma assign_on_single_line allow_single_line allow_library_clause include_type_is_keyword new_line_after_assign"
).split()

# tri-state structure options of the multiline_structure family accept yes / no / ignore
YESNOIGNORE = "first_paren_new_line last_paren_new_line open_paren_new_line close_paren_new_line new_line_after_comma assign_on_single_line ignore_single_line".split()


def _flip(v):
    if v == "yes":
        return "no"
    if v == "no":
        return "yes"
    if v is True:
        return False
    if v is False:
        return True
    return v


def _rules_with_option(name):
    return [(rid, d) for rid, d in sorted(rule_db().items()) if name in d["options"]]


POOL = ("none", "jcl", "indent_only", "all_enabled", "tabs4", "upper", "optional_remove", "align_flip", "multiline_flip", "no_structure", "naming", "rand_disabled", "rand_unfixable", "rand_warning")


def pool_entry(name):
    """Returns (style, [config dicts])."""
    db = rule_db()
    if name == "none":
        return None, []
    if name == "jcl":
        return "jcl", []
    if name == "indent_only":
        return "indent_only", []
    if name == "all_enabled":
        return None, [{"rule": {rid: {"disable": False} for rid in sorted(db)}}]
    if name == "tabs4":
        return "jcl", [{"rule": {"global": {"indent_style": "smart_tabs", "indent_size": 4}}}]
    if name == "upper":
        return "jcl", [{"rule": {"group": {"case": {"case": "upper"}}}}]
    if name == "optional_remove":
        d = {}
        for rid, m in _rules_with_option("action"):
            if m["options"]["action"] == "add":
                d[rid] = {"action": "remove"}
        d["if_002"] = {"parenthesis": "remove"}
        return "jcl", [{"rule": d}]
    if name == "align_flip":
        d = {}
        for opt in ("compact_alignment", "blank_line_ends_group", "comment_line_ends_group", "separate_generic_port_alignment", "if_control_statements_ends_group", "case_control_statements_ends_group", "loop_control_statements_ends_group", "align_left", "align_paren"):
            for rid, m in _rules_with_option(opt):
                d.setdefault(rid, {})[opt] = _flip(m["options"][opt])
        return "jcl", [{"rule": d}]
    if name == "multiline_flip":
        d = {}
        for opt in ("first_paren_new_line", "last_paren_new_line", "open_paren_new_line", "close_paren_new_line", "new_line_after_comma", "assign_on_single_line", "ignore_single_line", "new_line_after_assign"):
            for rid, m in _rules_with_option(opt):
                d.setdefault(rid, {})[opt] = _flip(m["options"][opt])
        return "jcl", [{"rule": d}]
    if name == "no_structure":
        return "jcl", [{"rule": {"group": {"structure": {"disable": True}}}}]
    if name == "naming":
        return "jcl", [{"rule": {"group": {"naming": {"disable": False}}}}]
    if name in ("rand_disabled", "rand_unfixable", "rand_warning"):
        rng = random.Random(hash_name(name))
        ids = sorted(db)
        pick = rng.sample(ids, len(ids) // 10)
        val = {"rand_disabled": {"disable": True}, "rand_unfixable": {"fixable": False}, "rand_warning": {"severity": "Warning"}}[name]
        return "jcl", [{"rule": {rid: dict(val) for rid in pick}}]
    if name == "prereq_disabled":
        # every rule that another rule declares as a prerequisite is switched off (ordering inside a
        # sub-phase is anchored on prerequisites)
        a, c = vsgapi.make_config()
        f, r = vsgapi.build([""], a, c, configure=False)
        pre = set()
        for o in r.rules:
            for q in getattr(o, "prerequisites", []) or []:
                pre.add(q if isinstance(q, str) else getattr(q, "unique_id", str(q)))
        return "jcl", [{"rule": {rid: {"disable": True} for rid in sorted(pre) if rid in db}}]
    if name == "mlc_yes":
        # documented option of the array multiline-structure rules that the rules do not list in `configuration`
        a, c = vsgapi.make_config()
        f, r = vsgapi.build([""], a, c, configure=False)
        d = {o.unique_id: {"move_last_comment": "yes"} for o in r.rules if hasattr(o, "move_last_comment") and not o.deprecated}
        return "jcl", [{"rule": d}]
    if name == "spaces_bounds":
        # documented bound forms of number_of_spaces (docs/configuring_whitespace_rules.rst), never a plain 0
        rng = random.Random(hash_name(name))
        d = {}
        for rid, m in _rules_with_option("number_of_spaces"):
            if m["options"]["number_of_spaces"] == 0:
                continue
            d[rid] = {"number_of_spaces": rng.choice([">=0", "0+", "<=2", "<3", ">=1", 2, ">1"])}
        return "jcl", [{"rule": d}]
    if name == "ws_rules_off":
        return "jcl", [{"rule": {"whitespace_001": {"disable": True}, "whitespace_200": {"disable": True}, "comment_010": {"disable": True}}}]
    if name == "ws_rules_warning":
        return "jcl", [{"rule": {"whitespace_001": {"severity": "Warning"}, "whitespace_200": {"severity": "Warning"}}}]
    if name.startswith("rc"):
        return random_config(int(name[2:]))
    raise KeyError(name)


def hash_name(s):
    import zlib

    return zlib.crc32(s.encode())


# ------------------------------------------------------------ documented domains

DOMAIN = {
    "case": ["lower", "upper"],
    "indent_style": ["spaces", "smart_tabs"],
    "indent_size": [2, 3, 4],
    "number_of_spaces": [1, 2, ">=1", ">=2", "1+", "2+", ">=0", "0+", "<=2", "<3"],
    "style": None,  # rule dependent, see _style_domain
    "parenthesis": ["insert", "remove"],
    "blank_lines_allowed": [1, 2],
    "consecutive": [2, 3],
    "length": [80, 120, 200],
    "min_height": [2, 3, 4],
    "alignment": ["report", "ignore"] ,
}
for _n in YESNO:
    DOMAIN.setdefault(_n, ["yes", "no"])


def _style_domain(default):
    if default in ("require_blank_line", "no_blank_line"):
        return ["require_blank_line", "no_blank_line"]
    if default in ("no_code", "allow_comment"):
        return ["no_code", "allow_comment", "require_blank_line", "require_comment"]
    return [default]


def option_domain(rid, opt, default):
    if opt == "style":
        return _style_domain(default)
    if opt == "action":
        if default in ("add", "remove"):
            return ["add", "remove"]
        if default in ("new_line", "same_line"):
            return ["new_line", "same_line"]
        return [default]
    if opt == "number_of_spaces":
        if default == 0:
            return [0]
        return DOMAIN[opt]
    if opt in DOMAIN and DOMAIN[opt]:
        return DOMAIN[opt]
    return None


def random_config(idx):
    """rc<idx>: a deterministic pseudo-random configuration over documented values."""
    db = rule_db()
    rng = random.Random(0xC0F1 + idx)
    style = rng.choice([None, "jcl", "jcl", "indent_only"])
    p_opt = rng.choice([0.05, 0.2, 0.5])
    p_dis = rng.choice([0.0, 0.05, 0.2])
    p_en = rng.choice([0.0, 0.1, 0.5])
    rules = {}
    for rid in sorted(db):
        m = db[rid]
        d = {}
        for opt, default in sorted(m["options"].items()):
            dom = option_domain(rid, opt, default)
            if dom and rng.random() < p_opt:
                d[opt] = rng.choice(dom)
        r = rng.random()
        if r < p_dis:
            d["disable"] = True
        elif m["disable"] and rng.random() < p_en and "naming" not in m["groups"] and rid not in NEVER_ENABLE:
            d["disable"] = False
        if rng.random() < 0.03:
            d["fixable"] = False
        if rng.random() < 0.03:
            d["severity"] = "Warning"
        if d:
            rules[rid] = d
    g = {}
    if rng.random() < 0.3:
        g["indent_size"] = rng.choice([2, 3, 4])
    if rng.random() < 0.3:
        g["indent_style"] = rng.choice(["spaces", "smart_tabs"])
    if g:
        rules["global"] = g
    if rng.random() < 0.3:
        rules["group"] = {"case": {"case": rng.choice(["upper", "lower"])}}
    return style, [{"rule": rules}]


# rules that add semantics-changing code by documented design (C01 lists them as known findings)
NEVER_ENABLE = set()
