"""Execution harness: seeded case selection, a pool of worker *subprocesses*
(never multiprocessing.Pool), CPU-time budgets, three-valued verdicts,
known-findings matching, replay files and evidence files.
"""
import hashlib
import json
import os
import queue
import random
import select
import signal
import subprocess
import sys
import threading
import time
import traceback
import zlib

VERIF = os.path.dirname(os.path.dirname(os.path.abspath(__file__)))
REPO = os.environ.get("VSG_REPO", "/repo")
PY = "/venv/bin/python" if os.path.exists("/venv/bin/python") else sys.executable
NPROC = int(os.environ.get("VERIF_JOBS", "0")) or min(16, os.cpu_count() or 4)


def seed():
    try:
        return int(os.environ.get("VERIF_SEED", "0"))
    except ValueError:
        return zlib.crc32(os.environ.get("VERIF_SEED", "0").encode())


def stable_hash(*parts):
    return zlib.crc32(("\x1f".join(str(p) for p in parts)).encode("utf-8", "surrogatepass"))


def rng_for(*parts):
    return random.Random(stable_hash(*parts))


class CpuTimeout(Exception):
    pass


class cpu_budget:
    """Raise CpuTimeout in the running case after `secs` of *CPU* time (load independent)."""

    def __init__(self, secs):
        self.secs = secs

    def _fire(self, *a):
        raise CpuTimeout("cpu budget of %ss exceeded" % self.secs)

    def __enter__(self):
        self.old = signal.signal(signal.SIGVTALRM, self._fire)
        # repeating: code under observation may swallow the first exception in a bare `except:`
        signal.setitimer(signal.ITIMER_VIRTUAL, self.secs, 2.0)

    def __exit__(self, *a):
        signal.setitimer(signal.ITIMER_VIRTUAL, 0)
        signal.signal(signal.SIGVTALRM, self.old)
        return False


# ---------------------------------------------------------------- worker side


def worker_main(prop_module_name):
    """Protocol: one JSON case per line on stdin, one JSON result per line on fd 3 (dup of stdout)."""
    out = os.fdopen(os.dup(1), "w")
    devnull = open(os.devnull, "w")
    os.dup2(devnull.fileno(), 1)
    sys.stdout = devnull
    import importlib

    mod = importlib.import_module(prop_module_name)
    if hasattr(mod, "worker_init"):
        mod.worker_init()
    for line in sys.stdin:
        line = line.strip()
        if not line:
            continue
        msg = json.loads(line)
        case = msg["case"]
        t0 = time.time()
        c0 = time.process_time()
        try:
            with cpu_budget(case.get("_cpu") if isinstance(case, dict) and case.get("_cpu") else msg.get("cpu", 120)):
                res = mod.run_case(case)
        except CpuTimeout as e:
            res = {"status": "hang", "detail": str(e), "trace": traceback.format_exc()[-1500:]}
        except MemoryError:
            res = {"status": "inconclusive", "detail": "MemoryError in harness"}
        except BaseException as e:  # harness error: never a verdict on the property
            res = {"status": "harness_error", "detail": repr(e)[:300], "trace": traceback.format_exc()[-2500:]}
        res.setdefault("status", "ok")
        res["wall"] = round(time.time() - t0, 3)
        res["cpu"] = round(time.process_time() - c0, 3)
        out.write(json.dumps({"i": msg["i"], "res": res}) + "\n")
        out.flush()
    try:
        from lib import vsgapi

        vsgapi.cleanup_scratch()
    except Exception:
        pass


class _Worker:
    def __init__(self, prop_module_name, env):
        self.p = subprocess.Popen(
            [PY, os.path.join(VERIF, "check.py"), "--worker", prop_module_name],
            stdin=subprocess.PIPE,
            stdout=subprocess.PIPE,
            stderr=subprocess.DEVNULL,
            text=True,
            env=env,
            cwd=VERIF,
        )

    def ask(self, msg, wall):
        self.p.stdin.write(json.dumps(msg) + "\n")
        self.p.stdin.flush()
        r, _, _ = select.select([self.p.stdout], [], [], wall)
        if not r:
            return None, "wall"
        line = self.p.stdout.readline()
        if not line:
            return None, "died"
        return json.loads(line), None

    def kill(self):
        try:
            self.p.kill()
            self.p.wait(timeout=10)
        except Exception:
            pass

    def close(self):
        try:
            self.p.stdin.close()
            self.p.wait(timeout=30)
        except Exception:
            self.kill()


def run_cases(prop_module_name, cases, cpu=120, wall=900, nproc=None, progress=None, deadline=None):
    """Run cases on a pool of persistent worker subprocesses. Returns results in case order.
    A worker that dies or exceeds the (generous) wall-clock watchdog is restarted; that case
    becomes 'worker_died' / 'inconclusive' (never a violation by itself unless the property says so).
    `deadline` (epoch seconds): cases not started by then are returned as status 'skipped'."""
    nproc = nproc or NPROC
    env = dict(os.environ)
    env["PYTHONPATH"] = VERIF + os.pathsep + REPO
    env["PYTHONHASHSEED"] = "0"
    env["PYTHONWARNINGS"] = "ignore"
    results = [None] * len(cases)
    q = queue.Queue()
    for i, c in enumerate(cases):
        q.put((i, c))
    lock = threading.Lock()
    done = [0]

    def loop():
        w = None
        while True:
            try:
                i, c = q.get_nowait()
            except queue.Empty:
                break
            if deadline and time.time() > deadline:
                results[i] = {"status": "skipped"}
                continue
            if w is None:
                w = _Worker(prop_module_name, env)
            try:
                ans, err = w.ask({"i": i, "case": c, "cpu": cpu}, wall)
            except (BrokenPipeError, OSError):
                ans, err = None, "died"
            if err:
                w.kill()
                w = None
                results[i] = {"status": "inconclusive" if err == "wall" else "worker_died", "detail": err}
            else:
                results[i] = ans["res"]
            with lock:
                done[0] += 1
                if progress and done[0] % progress == 0:
                    print("  .. %d/%d cases" % (done[0], len(cases)), file=sys.stderr, flush=True)
        if w is not None:
            w.close()

    ths = [threading.Thread(target=loop, daemon=True) for _ in range(min(nproc, max(1, len(cases))))]
    for t in ths:
        t.start()
    for t in ths:
        t.join()
    # one retry, in fresh workers, for cases whose worker died or hit the wall-clock watchdog (a loaded
    # machine must not turn into a verdict); what fails twice stays inconclusive
    again = [i for i, r in enumerate(results) if r and r.get("status") in ("worker_died", "inconclusive") and not r.get("retried")]
    if again and len(again) <= max(20, len(cases) // 50):
        for i in again:
            q.put((i, cases[i]))
        ths = [threading.Thread(target=loop, daemon=True) for _ in range(min(nproc, len(again)))]
        for t in ths:
            t.start()
        for t in ths:
            t.join()
        for i in again:
            if results[i] is not None:
                results[i]["retried"] = True
    return results


# ---------------------------------------------------------------- verdict side


def describe(prop, key):
    """Human-readable 'what fails' for a mechanism key (used when an entry has no text of its own)."""
    layout = ""
    if "|" in key:
        key, layout = key.rsplit("|", 1)
        layout = " [input layout class: %s]" % layout
    parts = key.split(":")
    r = parts[0]
    rest = ":".join(parts[1:]) + layout
    T = {
        "C01": "rule %s changes the code-token sequence outside its documented edit contract (%s)" % (r, rest),
        "C02": "rule %s does not preserve the comment / pragma sequence (%s)" % (r, rest),
        "C03": "rule %s makes a change outside its documented class (%s)" % (r, rest),
        "C07": "the lines changed by %s's fix differ from the lines it reported (%s)" % (r, rest),
        "C08": "after %s the in-memory model and a fresh parse of its own text disagree (%s)" % (r, rest),
        "C09": "a second --fix still changes the file; first rule to change it in pass 2: %s (%s)" % (r, rest),
        "C10": "rule %s applied again right after its own fix: %s" % (r, rest),
        "C18": "%s: region of interest / index invariant broken (%s)" % (r, rest),
        "C19": "unhandled exception or hang: %s" % key,
    }
    return T.get(prop, key)


def load_known():
    p = os.path.join(VERIF, "known_findings.json")
    if not os.path.exists(p):
        return []
    with open(p) as f:
        return json.load(f).get("findings", [])


class Verdict:
    """Collects violations (each with a mechanism key), matches them against
    known_findings.json, writes replay files, prints the interface lines."""

    def __init__(self, prop):
        self.prop = prop
        self.known = {}
        for e in load_known():
            if e.get("property") == prop and e.get("status", "open") == "open":
                self.known[e["key"]] = e
        self.known_hit = {}
        self.unknown = {}
        self.inconclusive = []
        self.n_violation_events = 0

    def violation(self, key, case, detail):
        """key: mechanism string. case: JSON-able replay case. detail: what was observed."""
        self.n_violation_events += 1
        if key in self.known:
            d = self.known_hit.setdefault(key, {"count": 0, "example": None})
            d["count"] += 1
            if d["example"] is None:
                d["example"] = {"case": _brief(case), "detail": _brief(detail)}
            return False
        d = self.unknown.setdefault(key, {"count": 0, "case": case, "detail": detail})
        d["count"] += 1
        return True

    def note_inconclusive(self, why):
        self.inconclusive.append(why)

    def finish(self):
        """Print lines; return exit code."""
        for key, d in sorted(self.known_hit.items()):
            e = self.known[key]
            print("KNOWN-FINDING: property=%s key=%s x%d %s" % (self.prop, key, d["count"], e.get("what") or describe(self.prop, key)))
        rc = 0
        rdir = os.path.join(VERIF, "replays", self.prop)
        for key, d in sorted(self.unknown.items()):
            os.makedirs(rdir, exist_ok=True)
            h = hashlib.sha1(key.encode()).hexdigest()[:12]
            path = os.path.join(rdir, h + ".json")
            with open(path, "w") as f:
                json.dump({"property": self.prop, "key": key, "count": d["count"], "case": d["case"], "detail": d["detail"]}, f, indent=1, default=str)
            print("VIOLATION property=%s replay=%s key=%s x%d" % (self.prop, os.path.relpath(path, VERIF), key, d["count"]))
            rc = 1
        if rc == 0 and self.inconclusive:
            for why in self.inconclusive[:10]:
                print("INCONCLUSIVE property=%s reason=%s" % (self.prop, why))
            rc = 2
        return rc


def _brief(x, n=400):
    s = json.dumps(x, default=str)
    return s if len(s) <= n else s[:n] + "..."


def write_evidence(prop, tier, level, coverage, wall_s, violations, assumptions=()):
    evdir = os.environ.get("VERIF_EVIDENCE_DIR") or os.path.join(VERIF, "evidence")
    os.makedirs(evdir, exist_ok=True)
    ev = {
        "property_id": prop,
        "tier": tier,
        "seed": seed(),
        "level": level,
        "coverage": coverage,
        "assumptions": list(assumptions),
        "wall_s": round(wall_s, 2),
        "violations": int(violations),
    }
    p = os.path.join(evdir, prop + ".json")
    tmp = p + ".tmp"
    with open(tmp, "w") as f:
        json.dump(ev, f, indent=1, default=str)
    os.replace(tmp, p)
    return ev


def sample(rng, universe, n):
    universe = list(universe)
    if n >= len(universe):
        return universe
    return rng.sample(universe, n)
