"""Independent VHDL lexer written from the LRM (IEEE 1076-2008 §15), not from
vsg/tokens.py.  Reference model shared by C01, C02, C03, C05 and the
re-layout transforms.  It looks at *text*, so it sees through VSG's token
boundaries (a glued `endprocess`, a `--` comment that swallowed code).
"""
import re

KW = set(
    """abs access after alias all and architecture array assert assume assume_guarantee attribute begin block body buffer bus
case component configuration constant context cover default disconnect downto else elsif end entity exit fairness file for force
function generate generic group guarded if impure in inertial inout is label library linkage literal loop map mod nand
new next nor not null of on open or others out package parameter port postponed procedure process property protected
pure range record register reject release rem report restrict restrict_guarantee return rol ror select sequence severity shared signal sla sll sra srl
strong subtype then to transport type unaffected units until use variable vmode vprop vunit wait when while with xnor xor""".split()
)

_tok = re.compile(
    r"""
 (?P<ws>[ \t\r\n\f\v\xa0]+)
|(?P<lcom>--[^\n]*)
|(?P<bcom>/\*.*?\*/)
|(?P<str>"(?:[^"\n]|"")*")
|(?P<ext>\\(?:[^\\\n]|\\\\)*\\)
|(?P<bit>(?:\d+)?(?:[sSuU]?[bBoOxX]|[dD])"(?:[^"\n]|"")*")
|(?P<based>\d[\d_]*\#[0-9a-fA-F_\.]+\#(?:[eE][+-]?\d[\d_]*)?)
|(?P<num>\d[\d_]*(?:\.\d[\d_]*)?(?:[eE][+-]?\d[\d_]*)?)
|(?P<id>[A-Za-z\x80-￿][A-Za-z0-9_\x80-￿]*)
|(?P<d3>\?/=|\?<=|\?>=)
|(?P<d2>=>|\*\*|:=|/=|>=|<=|<>|\?\?|\?=|\?<|\?>|<<|>>)
|(?P<d1>[&'()*+,\-./:;<=>|\[\]?@^`!$%{}~\#_])
""",
    re.X | re.S,
)


def segs(text):
    """All lexemes including whitespace and comments: list of (kind, text).
    kinds: ws lcom bcom pre str ext bit based num id d3 d2 d1 chr bad"""
    out = []
    pos = 0
    n = len(text)
    prev = None
    while pos < n:
        if text[pos] == "'" and pos + 2 < n and text[pos + 2] == "'" and text[pos + 1] != "\n":
            # tick after a name (identifier that is not a reserved word, `all`, `)`, `]`) is an attribute tick
            attr = prev is not None and (
                (prev[0] == "id" and (prev[1].lower() not in KW or prev[1].lower() == "all")) or prev[0] == "ext" or prev[1] in (")", "]") or prev[0] in ("str",)
            )
            if not attr:
                out.append(("chr", text[pos : pos + 3]))
                prev = out[-1]
                pos += 3
                continue
        if text[pos] in "`#":
            ls = text.rfind("\n", 0, pos) + 1
            if text[ls:pos].strip(" \t") == "":
                e = text.find("\n", pos)
                e = n if e < 0 else e
                out.append(("pre", text[pos:e]))
                pos = e
                continue
        m = _tok.match(text, pos)
        if not m:
            out.append(("bad", text[pos]))
            prev = out[-1]
            pos += 1
            continue
        k = m.lastgroup
        out.append((k, m.group(k)))
        pos = m.end()
        if k not in ("ws", "lcom", "bcom", "pre"):
            prev = out[-1]
    return out


def lex(text):
    return [(k, t) for k, t in segs(text) if k != "ws"]


def norm_code(k, t):
    if k in ("str", "chr", "ext"):
        return t
    if k == "bit":
        return t.lower()
    return t.lower()


NONCODE = ("ws", "lcom", "bcom", "pre")


def code(text):
    """Code lexemes normalised as C01 states: case-insensitive except character
    literals, string literals and extended identifiers (exact)."""
    return [norm_code(k, t) for k, t in segs(text) if k not in NONCODE]


def code_kinds(text):
    return [(k, norm_code(k, t)) for k, t in segs(text) if k not in NONCODE]


def comments(text):
    return [t for k, t in segs(text) if k in ("lcom", "bcom", "pre")]


def comments_nows(text):
    return ["".join(t.split()) for t in comments(text)]


def has_bad(text):
    return any(k == "bad" for k, _ in segs(text))
