"""Shared workload for the in-process fix/check monitors (C01 C02 C03 C07 C08 C09 C10 C18 C19 ...).

A case is {"file"| "gen" | "text", "variant": [[kind,k],...] | None, "cfg": pool-name}.
run(case, sinks) does exactly what apply_rules does for one file (parse, set_indent_map,
rule_list, configure, fix, clear, check) on the real objects with the monitors attached.
"""
import os
import random
import traceback

from lib import cfgpool, harness, monitors, transforms, vsgapi

_CFG_CACHE = {}


def get_config(name):
    """Real config.New per pool entry; cached per worker process exactly like the CLI shares one
    oConfig between the files a process handles."""
    if name not in _CFG_CACHE:
        style, dicts = cfgpool.pool_entry(name)
        _CFG_CACHE[name] = vsgapi.make_config(style, dicts)
    return _CFG_CACHE[name]


def source_text(case):
    if "text" in case:
        return case["text"]
    if "gen" in case:
        from lib import gen_vhdl

        return gen_vhdl.generate(case["gen"])
    return "\n".join(vsgapi.read_lines(os.path.join(vsgapi.REPO, case["file"])))


def materialise(case):
    text = source_text(case)
    if case.get("variant"):
        if not transforms.eligible(text):
            return None
        text = transforms.apply_chain(text, case["variant"])
    return text


def case_name(case):
    base = case.get("file") or ("gen%s" % case["gen"] if "gen" in case else "text")
    return "%s|%s|%s" % (base, case.get("variant"), case.get("cfg"))


def variant_class(case):
    """Layout class of a case, part of every fix-run mechanism key: 'plain', 'gen', or the sorted set of
    transform kinds applied (a known finding of a rule under one layout class does not hide the same rule
    failing under another)."""
    if "gen" in case:
        return "gen"
    v = case.get("variant")
    if not v:
        return "plain"
    return "+".join(sorted({k for k, _ in v}))


def setup(case, text=None):
    """Returns (oFile, oRules, a, oConfig) or a status dict."""
    from vsg import exceptions

    if text is None:
        text = materialise(case)
    if text is None:
        return {"status": "skip", "why": "transform not applicable"}
    a, oConfig = get_config(case.get("cfg", "none"))
    try:
        oFile, oRules = vsgapi.build(text.split("\n"), a, oConfig)
    except exceptions.ClassifyError as e:
        return {"status": "rejected", "msg": str(e)[:200]}
    except exceptions.ConfigurationError as e:
        return {"status": "config_error", "msg": str(e)[:200]}
    except harness.CpuTimeout:
        raise
    except Exception as e:
        tb = traceback.format_exc()
        return {"status": "parse_crash", "exc": type(e).__name__, "frame": vsg_frame(tb), "trace": tb[-1200:]}
    return oFile, oRules, a, oConfig


def vsg_frame(tb_text):
    """innermost vsg frame 'file:function' from a formatted traceback (for mechanism keys)."""
    last = None
    if "RemoteTraceback" in tb_text and '"""' in tb_text:
        tb_text = tb_text.split('"""')[1]  # the worker's traceback, not the parent's re-raise
    for ln in tb_text.splitlines():
        ln = ln.strip()
        if ln.startswith('File "') and "/vsg/" in ln:
            try:
                path = ln.split('"')[1].split("/vsg/")[1]
                fn = ln.rsplit(" in ", 1)[1]
                last = path + ":" + fn
            except Exception:
                pass
    return last or "?"


N_CFG_QUICK = 3
N_CFG_THOROUGH = 6
K_VARIANTS = 3
N_GEN = 1000
N_RC = 40


def file_cfgs(f, n):
    """The n pool entries a corpus file is paired with: a deterministic function of the file name."""
    pool = [p for p in cfgpool.POOL if p != "jcl"]
    random.Random(harness.stable_hash("cfgs", f)).shuffle(pool)
    return (["jcl"] + pool)[:n]


def file_pairs(f):
    """Two deterministic two-step transform chains per file (thorough tier only)."""
    rng = random.Random(harness.stable_hash("pairs", f))
    return [[[rng.choice(transforms.KINDS), rng.randrange(K_VARIANTS)], [rng.choice(transforms.KINDS), rng.randrange(K_VARIANTS)]] for _ in range(2)]


def all_variants(f, tier):
    v = [None]
    for kind in transforms.KINDS:
        for k in range(K_VARIANTS):
            v.append([[kind, k]])
    if tier != "quick":
        v.extend(file_pairs(f))
    return v


def elements_for_file(f, tier):
    """All universe elements of one corpus file.
    quick:    unmodified x 3 pool entries (jcl + 2 paired by hash); each single-step variant x jcl.
    thorough: unmodified x 6 entries; each single-step variant x 3 entries; two fixed chains x jcl."""
    out = []
    ncfg = N_CFG_QUICK if tier == "quick" else N_CFG_THOROUGH
    cf = file_cfgs(f, ncfg)
    for cfg in cf:
        out.append({"file": f, "cfg": cfg})
    vcfgs = cf[:1] if tier == "quick" else cf[:3]
    for kind in transforms.FIX_KINDS:
        for k in range(K_VARIANTS):
            for cfg in vcfgs:
                out.append({"file": f, "cfg": cfg, "variant": [[kind, k]]})
    if tier != "quick":
        for ch in file_pairs(f):
            out.append({"file": f, "cfg": "jcl", "variant": ch})
    # configurations outside the hashed pool: prerequisites disabled; indexed random configurations
    out.append({"file": f, "cfg": "prereq_disabled"})
    h = harness.stable_hash("rc", f)
    out.append({"file": f, "cfg": "mlc_yes"})
    out.append({"file": f, "cfg": "mlc_yes", "variant": [["squeeze", (h // 7) % K_VARIANTS]]})
    out.append({"file": f, "cfg": "spaces_bounds"})
    out.append({"file": f, "cfg": "spaces_bounds", "variant": [["squeeze", h % K_VARIANTS]]})
    out.append({"file": f, "cfg": "rc%d" % (h % N_RC)})
    if tier != "quick":
        out.append({"file": f, "cfg": "rc%d" % ((h // N_RC) % N_RC)})
    return out


def loop_frame(tb_text):
    """For a CPU-budget timeout: the innermost vsg frame whose function is a classify*/tokenize* loop
    (the loop that does not advance), else the innermost vsg frame."""
    frames = []
    for ln in tb_text.splitlines():
        ln = ln.strip()
        if ln.startswith('File "') and "/vsg/" in ln:
            try:
                frames.append((ln.split('"')[1].split("/vsg/")[1], ln.rsplit(" in ", 1)[1]))
            except Exception:
                pass
    for path, fn in reversed(frames):
        if fn.startswith(("classify", "tokenize", "detect")) and "utils" not in path:
            return path + ":" + fn
    return (frames[-1][0] + ":" + frames[-1][1]) if frames else "?"


def universe_size(tier):
    n = len(vsgapi.corpus())
    per = len(elements_for_file("x", tier))
    return n * per + (200 if tier == "quick" else N_GEN) * 4


def universe(tier, seed, n_quick, n_thorough, variants=True, gen=True, corpus_filter=None, kinds=None, p_variant=0.5, full=False):
    """The case universe is FINITE and enumerable: corpus file x (pool entries paired with that file by
    hash) x (no variant | kind x k<3 | two fixed chains) + generated designs x 3 pool entries.  The
    quick universe is a subset of the thorough one.  Every run covers the deterministic base (every
    corpus file, unmodified, under `jcl` and under its first hashed pool entry (thorough: under all six),
    and with a comment at every line end under `jcl`); the
    seed selects the rest.  The whole universe was swept during development (tools/sweep.py), so
    that every mechanism by which the pinned tree violates a property is a listed known finding."""
    rng = random.Random(seed)
    corpus = vsgapi.corpus()
    if corpus_filter:
        corpus = [f for f in corpus if corpus_filter(f)]
    ncfg = N_CFG_QUICK if tier == "quick" else N_CFG_THOROUGH
    n = n_quick if tier == "quick" else n_thorough
    if os.environ.get("VERIF_N"):
        n = int(os.environ["VERIF_N"])
    cases = []
    seen = set()

    def add(c):
        key = case_name(c)
        if key not in seen:
            seen.add(key)
            cases.append(c)

    for f in corpus if not os.environ.get("VERIF_NOBASE") else []:
        cf = file_cfgs(f, ncfg)
        for cfg in cf[: (2 if tier == "quick" else ncfg)]:
            add({"file": f, "cfg": cfg})
        if tier != "quick":
            add({"file": f, "cfg": "prereq_disabled"})
        # hostile base: a comment at EVERY line end of every file
        add({"file": f, "cfg": "jcl", "variant": [["allcomment", 0]]})
    if full:
        for f in corpus:
            for c in elements_for_file(f, tier):
                add(c)
    else:
        kk = set(kinds or transforms.FIX_KINDS)
        tries = 0
        while len(cases) < n and tries < n * 20 and variants:
            tries += 1
            f = rng.choice(corpus)
            el = elements_for_file(f, tier)
            if rng.random() < p_variant:
                pref = [c for c in el if c.get("variant") and (len(c["variant"]) > 1 or c["variant"][0][0] in kk)]
                el = pref or el
            add(rng.choice(el))
    if gen:
        try:
            from lib import gen_vhdl  # noqa: F401

            pool3 = ["jcl", "all_enabled", "optional_remove", "mlc_yes"]
            if full:
                for g in range(N_GEN if tier != "quick" else 200):
                    for cfg in pool3:
                        add({"gen": g, "cfg": cfg})
            else:
                G = 200 if tier == "quick" else N_GEN
                for g in range(G):  # base: every generated design of the tier under jcl
                    add({"gen": g, "cfg": "jcl"})
                for g in harness.sample(rng, range(G), 60 if tier == "quick" else 600):
                    add({"gen": g, "cfg": rng.choice(pool3[1:])})
        except ImportError:
            pass
    return cases
