"""Shared workload for the in-process fix/check monitors (C01 C02 C03 C07 C08 C09 C10 C18 C19 ...).

A case is {"file"| "gen" | "text", "variant": [[kind,k],...] | None, "cfg": pool-name}.
run(case, sinks) does exactly what apply_rules does for one file (parse, set_indent_map,
rule_list, configure, fix, clear, check) on the real objects with the monitors attached.
"""
import os
import random
import traceback

from lib import cfgpool, harness, monitors, transforms, vsgapi

_CFG_CACHE = {}


def get_config(name):
    """Real config.New per pool entry; cached per worker process exactly like the CLI shares one
    oConfig between the files a process handles."""
    if name not in _CFG_CACHE:
        style, dicts = cfgpool.pool_entry(name)
        _CFG_CACHE[name] = vsgapi.make_config(style, dicts)
    return _CFG_CACHE[name]


def source_text(case):
    if "text" in case:
        return case["text"]
    if "gen" in case:
        from lib import gen_vhdl

        return gen_vhdl.generate(case["gen"])
    return "\n".join(vsgapi.read_lines(os.path.join(vsgapi.REPO, case["file"])))


def materialise(case):
    text = source_text(case)
    if case.get("variant"):
        if not transforms.eligible(text):
            return None
        text = transforms.apply_chain(text, case["variant"])
    return text


def case_name(case):
    base = case.get("file") or ("gen%s" % case["gen"] if "gen" in case else "text")
    return "%s|%s|%s" % (base, case.get("variant"), case.get("cfg"))


def setup(case, text=None):
    """Returns (oFile, oRules, a, oConfig) or a status dict."""
    from vsg import exceptions

    if text is None:
        text = materialise(case)
    if text is None:
        return {"status": "skip", "why": "transform not applicable"}
    a, oConfig = get_config(case.get("cfg", "none"))
    try:
        oFile, oRules = vsgapi.build(text.split("\n"), a, oConfig)
    except exceptions.ClassifyError as e:
        return {"status": "rejected", "msg": str(e)[:200]}
    except exceptions.ConfigurationError as e:
        return {"status": "config_error", "msg": str(e)[:200]}
    return oFile, oRules, a, oConfig


def vsg_frame(tb_text):
    """innermost vsg frame 'file:function' from a formatted traceback (for mechanism keys)."""
    last = None
    for ln in tb_text.splitlines():
        ln = ln.strip()
        if ln.startswith('File "') and "/vsg/" in ln:
            try:
                path = ln.split('"')[1].split("/vsg/")[1]
                fn = ln.rsplit(" in ", 1)[1]
                last = path + ":" + fn
            except Exception:
                pass
    return last or "?"


def universe(tier, seed, n_quick, n_thorough, pool=None, variants=True, gen=True, corpus_filter=None):
    """Seeded selection from the finite universe corpus × pool × (no variant | one of KINDS × k) plus
    generated designs.  The seed only selects; every element is reproducible from its description."""
    rng = random.Random(seed)
    corpus = vsgapi.corpus()
    if corpus_filter:
        corpus = [f for f in corpus if corpus_filter(f)]
    pool = list(pool or cfgpool.POOL)
    n = n_quick if tier == "quick" else n_thorough
    if os.environ.get("VERIF_N"):
        n = int(os.environ["VERIF_N"])
    K = 3 if tier == "quick" else 12
    cases = []
    # stratify: spread over files first so that every rule's own fixture is likely to be visited
    files = list(corpus)
    rng.shuffle(files)
    i = 0
    while len(cases) < n:
        f = files[i % len(files)]
        i += 1
        c = {"file": f, "cfg": rng.choice(pool)}
        r = rng.random()
        if variants and r < 0.35:
            c["variant"] = [[rng.choice(transforms.KINDS), rng.randrange(K)]]
        elif variants and r < 0.45:
            c["variant"] = [[rng.choice(transforms.KINDS), rng.randrange(K)], [rng.choice(transforms.KINDS), rng.randrange(K)]]
        cases.append(c)
    if gen:
        try:
            from lib import gen_vhdl  # noqa: F401

            G = 400 if tier == "quick" else 6000
            ng = max(20, n // 10)
            for g in harness.sample(rng, range(G), ng):
                cases.append({"gen": g, "cfg": rng.choice(pool)})
        except ImportError:
            pass
    return cases
