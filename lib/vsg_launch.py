"""Launcher for CLI observations: "install monitors, then vsg.__main__.main()".

Run as a script with the real command line.  PYTHONPATH must contain /repo (working tree).
Environment (all optional; without them this is a plain `vsg`):
  VSG_VERIF_AUDIT=<path>   append one JSON line per file-system audit event (open for writing,
                            os.rename, os.chmod, os.remove, shutil.copyfile, os.truncate ...)
  VSG_VERIF_FAULT=<event>:<n>:<exc>[:<substr>]
                            raise <exc> (OSError errno name such as ENOSPC/EACCES/EIO/EPERM/EROFS, or
                            KeyboardInterrupt / RuntimeError / KILL) at the n-th (1-based) audit event
                            named <event> whose first argument contains <substr>.
  VSG_VERIF_RULEFAULT=<rule_id>
                            make that rule's _fix_violation raise RuntimeError (a rule raising
                            during fix), by wrapping the instance after rule_list() construction.
multiprocessing uses fork here, so pool workers inherit the hooks.
"""
import errno
import json
import os
import signal
import sys

_AUD = os.environ.get("VSG_VERIF_AUDIT")
_FAULT = os.environ.get("VSG_VERIF_FAULT")
_RULEFAULT = os.environ.get("VSG_VERIF_RULEFAULT")

_WATCH = ("open", "os.rename", "os.chmod", "os.remove", "shutil.copyfile", "shutil.copymode", "shutil.copystat", "os.truncate", "os.utime", "os.link", "os.symlink", "shutil.move", "os.mkdir")


def _is_write_open(args):
    # ("open", path, mode, flags)
    mode = args[1] if len(args) > 1 else None
    flags = args[2] if len(args) > 2 else 0
    if isinstance(mode, str) and any(c in mode for c in "wax+"):
        return True
    if isinstance(flags, int) and flags & (os.O_WRONLY | os.O_RDWR | os.O_CREAT | os.O_TRUNC | os.O_APPEND):
        return True
    return False


_count = {}
_fault = None
if _FAULT:
    p = _FAULT.split(":")
    _fault = {"event": p[0], "n": int(p[1]), "exc": p[2], "substr": p[3] if len(p) > 3 else ""}


def _raise(kind):
    if kind == "KeyboardInterrupt":
        raise KeyboardInterrupt()
    if kind == "RuntimeError":
        raise RuntimeError("injected")
    if kind == "KILL":
        os.kill(os.getpid(), signal.SIGKILL)
    code = getattr(errno, kind)
    if kind in ("EACCES", "EPERM"):
        raise PermissionError(code, os.strerror(code))
    raise OSError(code, os.strerror(code))


def _hook(event, args):
    if event not in _WATCH:
        return
    try:
        first = os.fspath(args[0]) if args and isinstance(args[0], (str, bytes, os.PathLike)) else repr(args[0]) if args else ""
        if isinstance(first, bytes):
            first = first.decode("utf-8", "replace")
    except Exception:
        first = ""
    if event == "open" and not _is_write_open(args):
        return
    if _AUD:
        try:
            fd = os.open(_AUD, os.O_WRONLY | os.O_APPEND | os.O_CREAT, 0o644)
            try:
                rec = {"pid": os.getpid(), "event": event, "args": [a if isinstance(a, (str, int, type(None))) else repr(a) for a in args]}
                os.write(fd, (json.dumps(rec) + "\n").encode())
            finally:
                os.close(fd)
        except Exception:
            pass
    if _fault and event == _fault["event"] and _fault["substr"] in first:
        k = _count.get(event, 0) + 1
        _count[event] = k
        if k == _fault["n"]:
            _raise(_fault["exc"])


def _install_rulefault():
    from vsg import rule_list as rl

    real_init = rl.rule_list.__init__

    def __init__(self, *a, **k):
        real_init(self, *a, **k)
        for o in self.rules:
            if o.unique_id == _RULEFAULT:
                def boom(oViolation, _o=o):
                    raise RuntimeError("injected failure in " + _o.unique_id)

                o._fix_violation = boom

    rl.rule_list.__init__ = __init__


def main():
    sys.argv[0] = "vsg"
    if _AUD or _fault:
        sys.addaudithook(_hook)
    if _RULEFAULT:
        _install_rulefault()
    from vsg.__main__ import main as vsg_main

    vsg_main()


if __name__ == "__main__":
    main()
