"""Meaning-preserving re-layouts built on the independent lexer (vlex).
Each transform is deterministic in (text, kind, k): the *universe* of variants
is finite and enumerable, the run's seed only selects which part is explored.
"""
import random
import re
import zlib

from lib import vlex

KINDS = ("resize", "split", "join", "comment", "allcomment", "case", "tabs")
# kinds used by the parse-only checks (C05, C04) in addition; not part of the fix-run universe
EXTRA_KINDS = ("blankline", "wsline", "bcomment", "preproc", "squeeze")
# single-step kinds of the fix-run universe (two-step chains draw from KINDS only)
FIX_KINDS = KINDS + ("preproc", "blankline", "bcomment", "squeeze")

_IGNORE_MARKERS = ("vhdl_comp_off", "translate_off", "synthesis", "pragma", "rtl_synthesis", "altera", "synopsys", "xilinx", "vsg_")


def eligible(text):
    """Transforms are skipped for files where 'code token' is not well-defined
    (preprocessor lines, tool ignore regions, pragmas, code tags) or the lexer is unsure."""
    low = text.lower()
    if "`" in text:
        return False
    if any(k == "pre" for k, _ in vlex.segs(text)):
        return False
    if any(m in low for m in _IGNORE_MARKERS):
        return False
    S = vlex.segs(text)
    if any(k == "bad" for k, _ in S):
        return False
    return True


def _rng(text, kind, k):
    return random.Random(zlib.crc32(text.encode("utf-8", "surrogatepass")) ^ zlib.crc32(("%s/%d" % (kind, k)).encode()))


def transform(text, kind, k=0):
    """Returns transformed text or None when not applicable / unchanged."""
    if not eligible(text):
        return None
    rng = _rng(text, kind, k)
    S = vlex.segs(text)
    out = []
    p = (0.15, 0.3, 0.6)[k % 3]
    for i, (kd, t) in enumerate(S):
        prevk = S[i - 1][0] if i > 0 else None
        nextk = S[i + 1][0] if i + 1 < len(S) else None
        if kind == "case" and kd == "id":
            r = rng.random()
            mode = k % 4
            if mode == 0:
                out.append(t.upper())
            elif mode == 1:
                out.append(t.lower())
            elif mode == 2:
                out.append(t.upper() if r < 0.5 else t.lower())
            else:
                out.append("".join(c.upper() if rng.random() < 0.5 else c.lower() for c in t))
            continue
        if kd == "ws":
            if kind == "resize" and "\n" not in t and i > 0:
                # inter-token whitespace inside a line (leading whitespace of line 1 has i == 0)
                if rng.random() < 0.5:
                    out.append(" " * rng.choice([1, 2, 3, 7]))
                    continue
            if kind == "tabs" and "\n" in t:
                # re-indent: replace the indentation after the last newline with tabs
                head, _, ind = t.rpartition("\n")
                if ind and rng.random() < 0.7:
                    out.append(head + "\n" + "\t" * max(1, len(ind) // 2))
                    continue
            if kind == "split" and "\n" not in t and i > 0 and prevk not in (None, "lcom", "pre") and nextk not in (None, "lcom", "pre"):
                if rng.random() < p:
                    out.append("\n" + " " * rng.choice([0, 2, 4]))
                    continue
            if kind == "join" and "\n" in t and prevk not in (None, "lcom", "bcom", "pre") and nextk not in (None, "lcom", "bcom", "pre"):
                if rng.random() < p:
                    out.append(" ")
                    continue
            if kind == "comment" and "\n" in t and i > 0:
                r = rng.random()
                if r < p / 2 and prevk not in ("lcom", "pre", None):
                    out.append(" -- c" + str(i) + t)
                    continue
                if r < p:
                    out.append(t.replace("\n", "\n  -- own" + str(i) + "\n", 1))
                    continue
            if kind == "blankline" and i > 0 and nextk is not None and prevk not in (None, "pre") and nextk != "pre":
                # an EMPTY line between two tokens (at an existing line break, or at a space inside a line)
                if "\n" in t and rng.random() < p:
                    out.append(t.replace("\n", "\n\n", 1))
                    continue
                if "\n" not in t and prevk != "lcom" and nextk != "lcom" and rng.random() < p / 3:
                    out.append("\n\n" + " " * rng.choice([0, 2, 4]))
                    continue
            if kind == "wsline" and "\n" in t and i > 0 and nextk is not None and prevk != "pre" and nextk != "pre":
                # a line holding only blanks / tabs
                if rng.random() < p:
                    out.append(t.replace("\n", "\n" + rng.choice(["  ", "\t", " \t ", "    "]) + "\n", 1))
                    continue
            if kind == "bcomment" and i > 0 and nextk is not None and prevk not in ("lcom", "pre", None) and nextk != "pre":
                # a delimited comment at a line end or on its own line (the property speaks of exactly those)
                r = rng.random()
                if "\n" in t and r < p / 2:
                    out.append(t.replace("\n", " /* b%d */\n" % i, 1))
                    continue
                if "\n" in t and r < p:
                    out.append(t.replace("\n", "\n  /* own%d */\n" % i, 1))
                    continue
            if kind == "preproc" and "\n" in t and i > 0 and nextk is not None and prevk not in ("pre",) and nextk != "pre":
                # a preprocessor line (what VSG recognises: `#...` at column 0 or after blanks) on its own line
                if rng.random() < p / 2:
                    line = rng.choice(["#ifdef VERIF_%d" % i, "#endif", "#include \"verif_%d.vh\"" % i, "  #define VERIF_%d 1" % i, "#else"])
                    out.append(t.replace("\n", "\n" + line + "\n", 1))
                    continue
            if kind == "squeeze" and i > 0 and nextk is not None and prevk not in ("lcom", "bcom", "pre", None) and nextk not in ("pre",):
                # remove the blank between two tokens where the language does not need one (`s <= a` -> `s<=a`),
                # and (at line starts) remove the indentation: only where re-lexing the glued pair gives the same two lexemes
                if "\n" not in t:
                    a_, b_ = S[i - 1][1], S[i + 1][1]
                    if nextk in ("lcom", "bcom") or _separable(a_, b_):
                        if rng.random() < p:
                            out.append("")
                            continue
                elif rng.random() < p / 2:
                    out.append(t[: t.rfind("\n") + 1])  # drop the indentation of the next line
                    continue
            if kind == "allcomment" and "\n" in t and i > 0 and prevk not in ("lcom", "pre", None):
                # a comment at EVERY line end that does not have one
                out.append(" -- e" + str(i) + t)
                continue
        out.append(t)
    res = "".join(out)
    if res == text:
        return None
    return res


def _separable(a, b):
    """True when `a` immediately followed by `b` lexes back into exactly (a, b) and the LRM does not
    require a separator (identifier / abstract literal next to identifier / abstract literal)."""
    wordish = lambda c: c.isalnum() or c in "_\\\"'#!"
    if not a or not b or (wordish(a[-1]) and wordish(b[0])):
        return False
    try:
        L = [(k, t) for k, t in vlex.segs("x " + a + b + " y")][2:-2]
    except Exception:
        return False
    return [t for _, t in L] == [a, b]


def apply_chain(text, chain):
    for kind, k in chain:
        t2 = transform(text, kind, k)
        if t2 is not None:
            text = t2
    return text


# ---------------------------------------------------------------- broken inputs (C19)

BREAK_KINDS = ("truncate", "delete", "duplicate", "swap", "paren", "firstline")


def break_text(text, kind, k=0):
    rng = _rng(text, "break-" + kind, k)
    S = vlex.segs(text)
    idx = [i for i, (kd, t) in enumerate(S) if kd not in vlex.NONCODE]
    if len(idx) < 4:
        return None
    if kind == "firstline":
        # the file starts directly with code and the damage is on line 1
        first = idx[0]
        S2 = S[first:]
        line1 = [i for i, (kd, t) in enumerate(S2) if kd not in vlex.NONCODE]
        end = next((i for i, (kd, t) in enumerate(S2) if kd == "ws" and "\n" in t), len(S2))
        line1 = [i for i in line1 if i < end]
        if len(line1) < 2:
            return None
        j = line1[1 + (k % max(1, len(line1) - 1))] if len(line1) > 1 else line1[0]
        how = k % 2
        T = [(t + " " + t) if (n == j and how) else ("" if n == j else t) for n, (_, t) in enumerate(S2)]
        return "".join(T)
    if kind == "truncate":
        j = rng.choice(idx[1:])
        return "".join(t for _, t in S[:j])
    if kind == "delete":
        j = rng.choice(idx)
        return "".join(t for n, (_, t) in enumerate(S) if n != j)
    if kind == "duplicate":
        j = rng.choice(idx)
        return "".join((t + " " + t) if n == j else t for n, (_, t) in enumerate(S))
    if kind == "swap":
        a = rng.randrange(len(idx) - 1)
        i1, i2 = idx[a], idx[a + 1]
        T = [t for _, t in S]
        T[i1], T[i2] = T[i2], T[i1]
        return "".join(T)
    if kind == "paren":
        cands = [i for i in idx if S[i][1] in ("(", ")")]
        if not cands:
            return None
        j = rng.choice(cands)
        return "".join(t for n, (_, t) in enumerate(S) if n != j)
    return None
