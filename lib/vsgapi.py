"""Thin adapter around the *real* VSG code in /repo (never a copy).

Everything here does what vsg.apply_rules.apply_rules / vsg.__main__ do, with
the same objects, so that monitors observe the real code paths.
"""
import argparse
import hashlib
import json
import os
import subprocess
import sys
import tempfile
import warnings

REPO = os.environ.get("VSG_REPO", "/repo")
if REPO not in sys.path:
    sys.path.insert(0, REPO)
warnings.simplefilter("ignore")

PY = "/venv/bin/python" if os.path.exists("/venv/bin/python") else sys.executable
VERIF = os.path.dirname(os.path.dirname(os.path.abspath(__file__)))


def cla(**kw):
    """Namespace shaped like cmd_line_args.parse_command_line_arguments() output."""
    d = dict(
        version=False,
        style=None,
        configuration=[],
        debug=False,
        fix_only=None,
        stdin=False,
        force_fix=False,
        fix=False,
        backup=False,
        fix_phase=7,
        skip_phase=[],
        all_phases=False,
        output_format="vsg",
        junit=None,
        json=None,
        quality_report=None,
        local_rules=None,
        filename=[],
        jobs=1,
        output_configuration=None,
        rule_configuration=None,
    )
    d.update(kw)
    return argparse.Namespace(**d)


_SCRATCH = None


def scratch():
    global _SCRATCH
    if _SCRATCH is None or not os.path.isdir(_SCRATCH):
        _SCRATCH = tempfile.mkdtemp(prefix="vsgverif_")
    return _SCRATCH


def cleanup_scratch():
    global _SCRATCH
    if _SCRATCH and os.path.isdir(_SCRATCH):
        import shutil

        shutil.rmtree(_SCRATCH, ignore_errors=True)
    _SCRATCH = None


def write_config_file(dConfig, suffix=".json"):
    s = json.dumps(dConfig, sort_keys=True)
    h = hashlib.sha1(s.encode()).hexdigest()[:16]
    p = os.path.join(scratch(), "cfg_" + h + suffix)
    if not os.path.exists(p):
        with open(p, "w") as f:
            f.write(s)
    return p


def make_config(style=None, dicts=(), **clakw):
    """Real vsg.config.New on real files. dicts: list of configuration dictionaries
    (each written to its own file, passed in order like repeated -c)."""
    from vsg import config

    paths = [write_config_file(d) for d in dicts]
    a = cla(style=style, configuration=paths, **clakw)
    oConfig = config.New(a)
    return a, oConfig


def build(lines, a, oConfig, filename="case.vhd", configure=True):
    """parse + set_indent_map + rule_list + configure, as apply_rules does."""
    from vsg import rule_list, vhdlFile

    oFile = vhdlFile.vhdlFile(list(lines), a, filename, None, oConfig)
    oFile.set_indent_map(oConfig.dIndent)
    oRules = rule_list.rule_list(oFile, oConfig.severity_list, None)
    if configure:
        from vsg import apply_rules

        apply_rules.configure_rules(oConfig, oRules, oConfig.dConfig, 0, filename)
    return oFile, oRules


def parse_only(lines, a=None, oConfig=None, filename="case.vhd"):
    from vsg import vhdlFile

    if a is None:
        return vhdlFile.vhdlFile(list(lines))
    return vhdlFile.vhdlFile(list(lines), a, filename, None, oConfig)


def text_of(oFile):
    return "\n".join(oFile.get_lines()[1:])


def read_lines(path):
    from vsg.vhdlFile import utils as vu

    lines, err = vu.read_vhdlfile(path)
    return lines


def violations_of(oRules, with_phase=False):
    out = []
    for o in oRules.rules:
        for v in o.violations:
            t = (o.unique_id, v.get_line_number(), v.get_solution() or "")
            if with_phase:
                t = (o.phase,) + t
            out.append(t)
    return sorted(out, key=lambda x: tuple(str(y) for y in x))


def run_cli(args, cwd=None, stdin=None, timeout=150, env_extra=None, launcher=None, pre=None):
    """Run the real CLI (`python -m vsg` equivalent: bin/vsg → vsg.__main__.main)."""
    env = dict(os.environ)
    env["PYTHONPATH"] = REPO + os.pathsep + os.path.join(VERIF, "lib")
    env["PYTHONHASHSEED"] = "0"
    env["PYTHONWARNINGS"] = "ignore"
    if env_extra:
        env.update(env_extra)
    if launcher is None:
        cmd = [PY, "-c", "import sys; sys.argv[0]='vsg'; from vsg.__main__ import main; main()"]
    else:
        cmd = [PY, launcher]
    if pre:
        cmd = list(pre) + cmd
    try:
        p = subprocess.run(cmd + list(args), cwd=cwd, input=stdin, capture_output=True, text=True, timeout=timeout, env=env)
    except subprocess.TimeoutExpired:
        # a run that does not come back is C19's finding (parser loops on broken input are listed there); callers
        # treat it like an unhandled exception: nothing to conclude about their own property
        return -9, "", "Traceback (most recent call last):\n  <no answer within %d s: hang>\n" % timeout
    return p.returncode, p.stdout, p.stderr


def corpus():
    """Every *.vhd under /repo/tests, sorted, relative to REPO. Read from the working tree at run time."""
    out = []
    root = os.path.join(REPO, "tests")
    for dp, dn, fn in os.walk(root):
        dn.sort()
        for f in sorted(fn):
            if f.endswith(".vhd"):
                out.append(os.path.relpath(os.path.join(dp, f), REPO))
    return out


def token_class(t):
    return type(t).__module__.replace("vsg.token.", "").replace("vsg.", "") + "." + type(t).__name__
