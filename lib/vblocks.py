"""Block tracker over code lexemes: which opener does an `end ... ;` close, and what is the opener's
name / label?  Used only to validate the designator a rule INSERTS after `end` (C01).  It validates
itself on every input: wherever the text already has a name after `end`, the prediction must agree,
otherwise the caller falls back to the weaker check ("the name occurs in the code").
"""
from lib import vlex

LABELLED = ("process", "block", "generate", "loop", "case", "if")
UNITS = ("entity", "architecture", "package", "configuration", "context")


def _is_id(t):
    return bool(t) and (t[0].isalpha() or t[0] == "\\" or t[0] == '"') and t not in vlex.KW


def ends(code):
    """Yields (index_of_end, [kw...], name_or_None, index_of_semicolon) for every `end ... ;`."""
    n = len(code)
    for i, t in enumerate(code):
        if t != "end":
            continue
        j = i + 1
        kws = []
        while j < n and code[j] in ("entity", "architecture", "package", "body", "configuration", "context", "process", "block", "generate", "loop", "case", "if", "function", "procedure", "record", "component", "protected", "units", "for", "postponed", "?", "view"):
            kws.append(code[j])
            j += 1
        name = None
        if j < n and code[j] != ";" and (_is_id(code[j]) or code[j].startswith('"')):
            name = code[j]
            j += 1
        if j < n and code[j] == ";":
            yield i, kws, name, j


def _subprogram_openers(code):
    """indices of `function|procedure` keywords that open a BODY (spec followed by `is` not `is new`)."""
    out = []
    n = len(code)
    for i, t in enumerate(code):
        if t in ("function", "procedure") and (i == 0 or code[i - 1] != "end"):
            depth = 0
            j = i + 1
            while j < n:
                c = code[j]
                if c == "(":
                    depth += 1
                elif c == ")":
                    depth -= 1
                elif depth <= 0 and c == ";":
                    break
                elif depth <= 0 and c == "is":
                    if j + 1 < n and code[j + 1] in ("new", "<>"):
                        break
                    out.append(i)
                    break
                j += 1
    return out


def expected_name(code, end_index, kws):
    """Name/label of the construct closed by the `end` at end_index, or None when unsure."""
    kw = [k for k in kws if k not in ("postponed", "?", "for")]
    k0 = kw[0] if kw else None
    if k0 in LABELLED:
        depth = 0
        i = end_index - 1
        while i >= 0:
            t = code[i]
            if t == k0:
                if i > 0 and code[i - 1] == "end":
                    depth += 1
                    i -= 2
                    continue
                # `if` inside `elsif`? no: elsif is its own lexeme.  `generate` closes if/for/case generate:
                if k0 == "generate":
                    # opener is `label : for|if|case ... generate`; walk back to the label
                    if depth == 0:
                        j = i - 1
                        while j >= 0 and code[j] != ":" and code[j] not in (";", "begin"):
                            j -= 1
                        if j >= 1 and code[j] == ":" and _is_id(code[j - 1]):
                            return code[j - 1]
                        return None
                    depth -= 1
                    i -= 1
                    continue
                if k0 == "loop":
                    # `loop` also appears as the opener's own keyword: [label :] [for x in r | while c] loop
                    if depth == 0:
                        j = i - 1
                        while j >= 0 and code[j] not in (";", "begin", "then", "else", "loop", "is", "generate", "=>"):
                            if code[j] == ":" and j >= 1 and _is_id(code[j - 1]) and (j < 2 or code[j - 2] in (";", "begin", "then", "else", "loop", "is", "generate", "=>")):
                                return code[j - 1]
                            j -= 1
                        return ""
                    depth -= 1
                    i -= 1
                    continue
                if k0 == "if" and i > 0 and code[i - 1] == "end":
                    i -= 1
                    continue
                if depth == 0:
                    j = i - 1
                    if j >= 0 and code[j] == "postponed":
                        j -= 1
                    if j >= 1 and code[j] == ":" and _is_id(code[j - 1]):
                        return code[j - 1]
                    return ""  # unlabelled opener: no name can be right
                depth -= 1
            i -= 1
        return None
    if k0 in UNITS or k0 is None and False:
        want = k0
        body = "body" in kw
        i = end_index - 1
        while i >= 0:
            if code[i] == want and (i == 0 or code[i - 1] != "end"):
                j = i + 1
                if want == "package" and j < len(code) and code[j] == "body":
                    if not body:
                        i -= 1
                        continue
                    j += 1
                elif want == "package" and body:
                    i -= 1
                    continue
                if j < len(code) and _is_id(code[j]):
                    return code[j]
                return None
            i -= 1
        return None
    if k0 == "component":
        i = end_index - 1
        while i >= 0:
            if code[i] == "component" and (i == 0 or code[i - 1] not in ("end", ":")):
                return code[i + 1] if i + 1 < len(code) and _is_id(code[i + 1]) else None
            i -= 1
        return None
    if k0 == "record":
        i = end_index - 1
        while i >= 0:
            if code[i] == "record" and code[i - 1] != "end":
                # type <name> is record
                if i >= 3 and code[i - 1] == "is" and code[i - 3] == "type":
                    return code[i - 2]
                return None
            i -= 1
        return None
    if k0 in ("function", "procedure") or k0 is None:
        # subprogram bodies nest; match ends of subprogram bodies with openers by a stack
        openers = _subprogram_openers(code)
        if k0 is None and not openers:
            return None
        # collect ends that can close subprograms: `end [function|procedure] [name] ;` whose kws are empty or subprogram
        stack = []
        events = [(i, "open") for i in openers]
        for ei, ekws, ename, _ in ends(code):
            ek = [k for k in ekws]
            if not ek or ek[0] in ("function", "procedure"):
                events.append((ei, "end", ek))
        events.sort()
        # bare `end ;` may also close entity/architecture/package...: only trust when a subprogram is open
        for ev in events:
            if ev[1] == "open":
                stack.append(ev[0])
            else:
                if ev[0] == end_index:
                    if not stack:
                        return None
                    o = stack[-1]
                    return code[o + 1] if o + 1 < len(code) else None
                if stack and (ev[2] or True):
                    # a bare `end;` closes a subprogram only if one is open and nothing else is: unknowable -> give up on bare ends
                    if not ev[2]:
                        return None
                    stack.pop()
        return None
    return None


def self_check(code):
    """Fraction check on the input: every existing name after `end` must equal the prediction.
    Returns (agree, disagree)."""
    a = d = 0
    for i, kws, name, _ in ends(code):
        if name is None:
            continue
        e = expected_name(code, i, kws)
        if e is None:
            continue
        if e == name:
            a += 1
        else:
            d += 1
    return a, d
