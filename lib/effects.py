"""Event recorder for rule applications inside real fix runs, plus the oracles shared by
C01 / C02 / C03 / C07: code-lexeme edit classification, comment comparison, documented rule
classes parsed from docs/*_rules.rst.
"""
import difflib
import glob
import os
import re

from lib import monitors, vlex, vsgapi

# ------------------------------------------------------------------ recorder


class EffectSink(monitors.Sink):
    """Records, for one fix run:
    events: one dict per rule.fix() call that changed the text, and per non-rule mutation that did;
    chain_breaks: text changes that happened *outside* any monitored application (the 'before' of an
    event differs from the previous 'after');
    fix_calls / changing_calls counters."""

    def __init__(self, keep_lines=False):
        self.events = []
        self.chain_breaks = []
        self.last = None
        self.fix_calls = 0
        self.entered = set()  # rule ids whose fix wrapper was entered
        self.analyze_only = set()
        self.fixed = {}  # id(rule) -> list of violations handed to update()
        self.aborted = []
        self._depth = 0

    def start(self, oFile):
        self.last = monitors.snap(oFile)
        self.initial = self.last

    def _chain(self, where, now):
        if self.last is not None and now != self.last:
            self.chain_breaks.append({"where": where, "before": self.last, "after": now})
        self.last = now

    def fix_before(self, rule, oFile):
        self.fix_calls += 1
        self.entered.add(rule.unique_id)
        b = monitors.snap(oFile)
        self._chain("before " + rule.unique_id, b)
        self._depth += 1
        return (b, rule.had_violations)

    def update_before(self, rule, oFile, lUpdates, bUpdateMap):
        if rule is not None:
            self.fixed[id(rule)] = [(v.get_line_number(), v.get_solution() or "", v.get_action()) for v in lUpdates]

    def fix_after(self, rule, oFile, ctx):
        self._depth -= 1
        b, hv = ctx
        a = monitors.snap(oFile)
        self.last = a
        fixed = self.fixed.pop(id(rule), [])
        import sys

        if sys.exc_info()[0] is not None:
            # the application raised (C19 reports it); a half-applied fix is not an application
            self.aborted.append(rule.unique_id)
            return
        if a != b or fixed:
            self.events.append(
                {
                    "kind": "rule",
                    "rule": rule.unique_id,
                    "phase": rule.phase,
                    "subphase": rule.subphase,
                    "groups": list(rule.groups),
                    "fixable": rule.fixable,
                    "disable": rule.disable,
                    "severity_type": rule.severity.type,
                    "before": b,
                    "after": a,
                    "changed": a != b,
                    "fixed": fixed,
                }
            )

    def analyze_before(self, rule, oFile):
        if self._depth == 0:
            # analysis-only call made by rule_list.fix for warning-severity rules
            self.analyze_only.add(rule.unique_id)
            b = monitors.snap(oFile)
            self._chain("before analyze " + rule.unique_id, b)
            return b
        return None

    def analyze_after(self, rule, oFile, ctx):
        if ctx is not None:
            a = monitors.snap(oFile)
            if a != ctx:
                self.events.append({"kind": "analyze", "rule": rule.unique_id, "phase": rule.phase, "groups": list(rule.groups), "fixable": rule.fixable, "disable": rule.disable, "severity_type": rule.severity.type, "before": ctx, "after": a, "changed": True, "fixed": []})
            self.last = a

    def nonrule_before(self, name, oFile):
        b = monitors.snap(oFile)
        self._chain("before " + name, b)
        return b

    def nonrule_after(self, name, oFile, ctx):
        a = monitors.snap(oFile)
        self.last = a
        if a != ctx:
            self.events.append({"kind": "nonrule", "rule": "<" + name + ">", "phase": None, "groups": [], "before": ctx, "after": a, "changed": True, "fixed": []})

    def finish(self, oFile):
        self._chain("end of run", monitors.snap(oFile))


# ------------------------------------------------------------------ documented classes

_DOC = None


def doc_classes():
    """{rule_id: {"phase": n, "icons": set([...])}} parsed from docs/*_rules.rst at run time."""
    global _DOC
    if _DOC is None:
        d = {}
        for p in sorted(glob.glob(os.path.join(vsgapi.REPO, "docs", "*_rules.rst"))):
            with open(p, encoding="utf-8") as f:
                lines = f.read().split("\n")
            for i, ln in enumerate(lines):
                if i + 1 < len(lines) and re.fullmatch(r"[a-z0-9_]+_\d\d\d", ln.strip()) and set(lines[i + 1].strip()) == {"#"}:
                    rid = ln.strip()
                    icons = None
                    for j in range(i + 2, min(i + 8, len(lines))):
                        if lines[j].startswith("|"):
                            icons = set(re.findall(r"\|([a-z0-9_]+)\|", lines[j]))
                            break
                    if icons is None:
                        d[rid] = {"phase": None, "icons": set(), "moved": True}
                        continue
                    ph = [int(x[6:]) for x in icons if x.startswith("phase_")]
                    if not ph:
                        d[rid] = {"phase": None, "icons": set(), "moved": True}
                        continue
                    d[rid] = {"phase": ph[0], "icons": icons}
        _DOC = d
    return _DOC


# ------------------------------------------------------------------ code edit classification (C01)

UNIT_KW = {
    "architecture", "entity", "package", "body", "function", "procedure", "process", "component", "context", "configuration",
    "record", "generate", "loop", "case", "if", "block", "protected", "units", "for", "postponed", "view",
}
STMT_START_PREV = {";", "begin", "then", "else", "loop", "is", "generate", "=>", "block", ")"}

RULE_CONTRACT = {}
for _r in ("block_002", "process_012", "component_021"):
    RULE_CONTRACT[_r] = {"is"}
for _r in ("architecture_010", "context_021", "entity_015", "function_018", "package_007", "package_body_002", "procedure_012"):
    RULE_CONTRACT[_r] = {"end_kw"}
for _r in ("architecture_024", "block_007", "component_022", "context_022", "entity_019", "function_020", "package_014", "package_body_003", "procedure_014", "process_018", "record_type_definition_005", "generate_011", "loop_statement_007", "case_020"):
    RULE_CONTRACT[_r] = {"end_name"}
for _r in ("case_019", "concurrent_005", "procedure_call_001", "procedure_call_002", "report_statement_001"):
    RULE_CONTRACT[_r] = {"label_removed"}
RULE_CONTRACT["instantiation_033"] = {"component_kw"}
RULE_CONTRACT["if_002"] = {"cond_paren"}
for _r in ("signal_015", "port_026"):
    RULE_CONTRACT[_r] = {"decl_split"}

# documented, disabled-by-default rules that add or rewrite code outside C01's permitted list
OUTSIDE_LIST = {"after_001", "after_003", "process_029"}


def _is_name(lex):
    return bool(re.fullmatch(r"[a-z][a-z0-9_]*", lex)) or (lex.startswith("\\") and lex.endswith("\\")) or (lex.startswith('"') and lex.endswith('"'))


def canon_split(code):
    """Canonical form for the declaration-split contract: every `kw a, b : rest ;` (kw optional inside
    interface lists) becomes `kw a : rest ; kw b : rest ;`.  Applied to both sides."""
    out = []
    i = 0
    n = len(code)
    while i < n:
        # candidate: optional class keyword, then id (, id)+ :
        j = i
        kw = None
        if code[j] in ("signal", "constant", "variable", "file") and j + 1 < n:
            kw = code[j]
            j += 1
        k = j
        ids = []
        while k < n and (_is_name(code[k]) or re.fullmatch(r"[0-9a-z_]+", code[k])) and code[k] not in vlex.KW:
            # (VSG reads `34pll` as one word; the lexer yields `34`,`pll`: glue them back)
            if re.fullmatch(r"[0-9_]+", code[k]) and k + 1 < n and re.fullmatch(r"[a-z_][a-z0-9_]*", code[k + 1]) and code[k + 1] not in vlex.KW:
                code = code[:k] + [code[k] + code[k + 1]] + code[k + 2 :]
                n = len(code)
            ids.append(code[k])
            if k + 1 < n and code[k + 1] == ",":
                k += 2
                continue
            k += 1
            if k < n and (_is_name(code[k]) or re.fullmatch(r"[0-9a-z_]+", code[k])) and code[k] not in vlex.KW:
                continue  # `a b : t` (missing comma in the input): VSG reads two identifiers, so do we, on both sides
            break
        prev = out[-1] if out else None
        if len(ids) >= 2 and k < n and code[k] == ":" and (kw is not None or prev in ("(", ";")):
            # rest: up to ';' at depth 0 or the ')' that closes the enclosing list
            depth = 0
            m = k + 1
            while m < n:
                if code[m] == "(":
                    depth += 1
                elif code[m] == ")":
                    if depth == 0:
                        break
                    depth -= 1
                elif code[m] == ";" and depth == 0:
                    break
                m += 1
            rest = code[k + 1 : m]
            for idx, name in enumerate(ids):
                if kw:
                    out.append(kw)
                out.append(name)
                out.append(":")
                out.extend(rest)
                if idx < len(ids) - 1:
                    out.append(";")
            i = m
            continue
        out.append(code[i])
        i += 1
    return out


def _match(a, i, b, j, W):
    """a[i:] and b[j:] agree on the next W lexemes (or both end together inside the window)."""
    ra = a[i : i + W]
    rb = b[j : j + W]
    if ra != rb:
        return False
    if len(ra) < W:  # ran into the end of a: b must end at the same place
        return len(a) - i == len(b) - j
    return True


def align(cb, ca, K=14, W=8):
    """Opcodes like difflib's, but computed by a left-to-right scan that always prefers the
    smallest local insertion / deletion / replacement after which the two sequences agree again
    for W lexemes.  Rule edits are small and local; difflib's global LCS mis-aligns files made of
    repeated units (`end entity; entity fifo is ...`).  Falls back to difflib for the remainder."""
    ops = []
    i = j = 0
    n, m = len(cb), len(ca)
    while i < n or j < m:
        if i < n and j < m and cb[i] == ca[j]:
            i += 1
            j += 1
            continue
        found = None
        for k in range(1, K + 1):
            for w in (W, 5, 3) if k <= 3 else (W,):
                if j + k <= m and _match(cb, i, ca, j + k, w):
                    found = ("insert", 0, k)
                    break
                if i + k <= n and _match(cb, i + k, ca, j, w):
                    found = ("delete", k, 0)
                    break
            if not found and k == 1:
                # a lone parenthesis is the only legitimate one-lexeme edit that can sit right next to
                # another edit (`if a then elsif b then` -> `if (a) then elsif (b) then`)
                for w in (2, 1):
                    if j < m and ca[j] in ("(", ")") and _match(cb, i, ca, j + 1, w):
                        found = ("insert", 0, 1)
                        break
                    if i < n and cb[i] in ("(", ")") and _match(cb, i + 1, ca, j, w):
                        found = ("delete", 1, 0)
                        break
            if found:
                break
        if not found:
            # smallest replacement first; a short look-ahead is accepted for small replacements
            for tot in range(2, 2 * K + 1):
                for w in ((W, 4) if tot <= 6 else (W,)):
                    for kd in range(1, tot):
                        ki = tot - kd
                        if kd <= K and ki <= K and i + kd <= n and j + ki <= m and _match(cb, i + kd, ca, j + ki, w):
                            found = ("replace", kd, ki)
                            break
                    if found:
                        break
                if found:
                    break
        if not found:
            sm = difflib.SequenceMatcher(None, cb[i:], ca[j:], autojunk=False)
            for tag, i1, i2, j1, j2 in sm.get_opcodes():
                if tag != "equal":
                    ops.append((tag, i + i1, i + i2, j + j1, j + j2))
            break
        tag, kd, ki = found
        ops.append((tag, i, i + kd, j, j + ki))
        i += kd
        j += ki
    return ops


def _find_sub(hay, needle):
    if not needle:
        return None
    for s0 in range(0, len(hay) - len(needle) + 1):
        if hay[s0 : s0 + len(needle)] == needle:
            return s0
    return None


def _split_wraps(ops, cb, ca):
    """replace [a] -> [( a )] is really two insertions around an unchanged core (and vice versa)."""
    out = []
    for tag, i1, i2, j1, j2 in ops:
        if tag == "replace":
            d, a = cb[i1:i2], ca[j1:j2]
            if len(a) > len(d):
                k = _find_sub(a, d)
                if k is not None:
                    if k > 0:
                        out.append(("insert", i1, i1, j1, j1 + k))
                    if k + len(d) < len(a):
                        out.append(("insert", i2, i2, j1 + k + len(d), j2))
                    continue
            elif len(d) > len(a):
                k = _find_sub(d, a)
                if k is not None:
                    if k > 0:
                        out.append(("delete", i1, i1 + k, j1, j1))
                    if k + len(a) < len(d):
                        out.append(("delete", i1 + k + len(a), i2, j2, j2))
                    continue
        out.append((tag, i1, i2, j1, j2))
    return out


def classify_code_edit(cb, ca):
    """cb, ca: normalised code lexeme lists before/after one application.
    Returns (classes:set, illegal:list of opcode descriptions)."""
    classes = set()
    illegal = []
    if cb == ca:
        return classes, illegal
    ops = _split_wraps(align(cb, ca), cb, ca)
    open_parens = []
    for tag, i1, i2, j1, j2 in ops:
        d = cb[i1:i2]
        a = ca[j1:j2]
        pb = cb[i1 - 1] if i1 > 0 else None
        nb = cb[i2] if i2 < len(cb) else None
        pa = ca[j1 - 1] if j1 > 0 else None
        na = ca[j2] if j2 < len(ca) else None
        desc = {"op": tag, "del": d[:8], "ins": a[:8], "prev": pb, "next": nb}
        pure = (tag == "insert") or (tag == "delete")
        x = a if tag == "insert" else d  # the lexemes added or removed
        p = pa if tag == "insert" else pb
        nx = na if tag == "insert" else nb
        seq = ca if tag == "insert" else cb
        pos = j1 if tag == "insert" else i1
        if pure and x == ["is"]:
            ok = p in ("process", "block", ")") or (pos >= 2 and seq[pos - 2] == "component") or p == "postponed"
            if ok:
                classes.add("is")
                continue
        if pure and x == ["component"] and p == ":":
            classes.add("component_kw")
            continue
        if pure and x in (["("], [")"]):
            # ties: `if (a) and b then` -> `if ((a) and b) then` may align the new paren next to an old one
            if x == ["("]:
                k = pos - 1
                while k >= 0 and seq[k] == "(":
                    k -= 1
                p = seq[k] if k >= 0 else None
            else:
                k = pos + 1
                while k < len(seq) and seq[k] == ")":
                    k += 1
                nx = seq[k] if k < len(seq) else None
            open_parens.append((tag, x[0], p, nx, desc))
            continue
        if pure and len(x) == 2 and x[1] == ":" and _is_name(x[0]):
            # SequenceMatcher may align `lbl :` either way; statement label at statement start
            if tag == "delete" and (p in STMT_START_PREV or p is None or _is_name(p)):
                classes.add("label_removed")
                continue
        if pure and 1 <= len(x) <= 3:
            # after `end` [kw [kw]] [name] ;  — walk back to `end`
            k = pos - 1
            steps = 0
            while k >= 0 and steps < 4 and (seq[k] in UNIT_KW or seq[k] == "?"):
                k -= 1
                steps += 1
            reaches_end = k >= 0 and seq[k] == "end"
            # what follows the edit up to ';' may only be kw/name
            m = pos + len(x)
            tail = 0
            while m < len(seq) and tail < 3 and seq[m] != ";":
                m += 1
                tail += 1
            closes = m < len(seq) and seq[m] == ";"
            if reaches_end and closes:
                kws = [t for t in x if t in UNIT_KW]
                names = [t for t in x if t not in UNIT_KW]
                if all(_is_name(t) for t in names) and len(names) <= 1:
                    if kws:
                        classes.add("end_kw")
                    if names:
                        classes.add("end_name")
                        desc["name"] = names[0]
                        desc["tag"] = tag
                        classes.add(("end_name_detail", names[0], tag, k if tag == "insert" else -1))
                    continue
        illegal.append(desc)
    if open_parens:
        # must pair up: '(' after if/elsif, ')' before then, same tag, balanced
        tags = {t for t, _, _, _, _ in open_parens}
        opens = [o for o in open_parens if o[1] == "("]
        closes = [o for o in open_parens if o[1] == ")"]
        ok = len(tags) == 1 and len(opens) == len(closes) and all(o[2] in ("if", "elsif") for o in opens) and all(c[3] == "then" for c in closes)
        if ok:
            classes.add("cond_paren")
        else:
            illegal.extend(o[4] for o in open_parens)
    return classes, illegal


def check_rule_code_effect(rule_id, before, after):
    """C01-M1. Returns None when the application is within the rule's contract, else a dict."""
    cb, ca = vlex.code(before), vlex.code(after)
    if cb == ca:
        return None
    allowed = RULE_CONTRACT.get(rule_id, set())
    if "decl_split" in allowed:
        if canon_split(cb) == canon_split(ca):
            return None
    if "".join(cb) == "".join(ca) and len(ca) > len(cb):
        # same characters, more lexemes: a later rule put back the separator an earlier one removed
        # (the glue itself is reported at the rule that made it)
        return None
    classes, illegal = classify_code_edit(cb, ca)
    details = [c for c in classes if isinstance(c, tuple)]
    classes = {c for c in classes if not isinstance(c, tuple)}
    if not illegal and classes <= allowed:
        # inserted end-names must be the opener's own name/label (block tracker, self-validated on the
        # text before the edit); where the tracker is unsure: the name must at least occur in the code
        from lib import vblocks

        for _, name, tag, end_idx in details:
            if tag != "insert":
                continue
            if name not in cb:
                return {"class": "invented-name", "name": name}
            agree, disagree = vblocks.self_check(cb)
            if disagree == 0 and end_idx >= 0:
                for ei, kws, nm, _ in vblocks.ends(ca):
                    if ei == end_idx:
                        exp = vblocks.expected_name(ca, ei, kws)
                        if exp == "":
                            return {"class": "name-inserted-after-end-of-unlabelled-construct", "name": name}
                        if exp is not None and exp != name:
                            return {"class": "wrong-name-inserted-after-end", "name": name, "expected": exp}
                        break
        return None
    if illegal:
        if "".join(cb) == "".join(ca):
            return {"class": "tokens-glued", "edits": illegal[:4], "n": len(illegal)}
        return {"class": "illegal-edit", "edits": illegal[:4], "n": len(illegal)}
    return {"class": "edit-outside-contract:" + "+".join(sorted(classes - allowed)), "allowed": sorted(allowed)}


def first_diff(a, b, ctx=3):
    for i, (x, y) in enumerate(zip(a, b)):
        if x != y:
            return {"index": i, "before": a[max(0, i - ctx) : i + ctx + 1], "after": b[max(0, i - ctx) : i + ctx + 1]}
    if len(a) != len(b):
        i = min(len(a), len(b))
        return {"index": i, "before": a[max(0, i - ctx) : i + ctx + 1], "after": b[max(0, i - ctx) : i + ctx + 1], "len": [len(a), len(b)]}
    return None
