"""Seeded grammar-based generator of (deliberately badly laid out) VHDL designs.

generate(g) is a deterministic function of the index g: the set of generated designs used by the
checks is finite and enumerable (g < N), the run's seed only selects.  The designs exercise
declarations, concurrent and sequential statements, optional items present/absent, literals of
every kind, comments everywhere, random keyword/identifier case, random spacing, joined / split
lines.  Everything is emitted as a token list first and laid out afterwards, so the *code* is
valid by construction and the layout is arbitrary.
"""
import random

NL = "\n"


class G:
    def __init__(self, g):
        self.r = random.Random(0x5EED + g)
        self.n = 0
        self.sigs = ["clk", "rst", "a", "b", "c", "d", "q", "en", "sel", "cnt", "data_i", "data_o", "vec", "st"]
        self.style = self.r.choice(["messy", "messy", "compact", "oneline", "tidy"])
        self.kwcase = self.r.choice(["lower", "upper", "mixed", "lower"])
        self.comments = self.r.random() < 0.7

    # --- helpers
    def uid(self, p):
        self.n += 1
        return "%s%d" % (p, self.n)

    def kw(self, w):
        if self.kwcase == "upper":
            return w.upper()
        if self.kwcase == "mixed":
            return w.upper() if self.r.random() < 0.5 else w.lower()
        return w

    def ident(self, w):
        c = self.r.random()
        if c < 0.15:
            return w.upper()
        if c < 0.25:
            return w.capitalize()
        return w

    def opt(self, p=0.5):
        return self.r.random() < p

    def sig(self):
        return self.ident(self.r.choice(self.sigs))

    # --- expressions (token lists)
    def literal(self):
        r = self.r
        k = r.randrange(12)
        if k == 0:
            return [r.choice(["'0'", "'1'", "'Z'", "'X'", "'-'", "' '", "'('", "'\"'"])]
        if k == 1:
            return [r.choice(['"0101"', '"ZZ"', '""', '"a""b"', '"-- not a comment"', '"x; y"'])]
        if k == 2:
            return [r.choice(['x"FF"', 'X"0a"', 'b"1010"', 'o"17"', '8x"F"', 'SB"101"', '12d"255"', 'UX"A_B"'])]
        if k == 3:
            return [r.choice(["16#FF#", "2#1010_1010#", "16#F.F#E+2", "8#17#"])]
        if k == 4:
            return [r.choice(["1.5", "3.0e-3", "1E6", "0.25", "1_000"])]
        if k == 5:
            return [str(r.randrange(100)), r.choice(["ns", "ps", "us", "ms"])]
        if k == 6:
            return [r.choice(["true", "false", "TRUE"])]
        return [str(r.randrange(64))]

    def primary(self, d):
        r = self.r
        k = r.randrange(10)
        if k < 3 or d > 2:
            return [self.sig()]
        if k == 3:
            return self.literal()
        if k == 4:
            return ["("] + self.expr(d + 1) + [")"]
        if k == 5:
            return [self.sig(), "(", str(r.randrange(8)), ")"]
        if k == 6:
            return [self.sig(), "(", str(r.randrange(4, 8)), self.kw(r.choice(["downto", "to"])), str(r.randrange(4)), ")"]
        if k == 7:
            return [self.sig(), "'", self.kw(r.choice(["length", "range", "high", "low", "event", "left"]))]
        if k == 8:
            return [self.ident(r.choice(["to_integer", "unsigned", "std_logic_vector", "resize", "rising_edge", "f_calc"])), "("] + self.expr(d + 1) + [")"]
        return [self.kw("not"), self.sig()]

    def expr(self, d=0):
        r = self.r
        t = self.primary(d)
        for _ in range(r.choice([0, 0, 1, 1, 2])):
            op = r.choice(["and", "or", "xor", "nand", "+", "-", "&", "*", "/", "mod", "=", "/=", "<", "<=", ">", ">=", "sll"])
            t = t + [self.kw(op) if op.isalpha() else op] + self.primary(d + 1)
        return t

    def cond(self):
        r = self.r
        c = [self.sig(), r.choice(["=", "/=", "<", ">="])] + self.literal()[:1]
        if c[-1][0] not in "'\"0123456789":
            c[-1] = "'1'"
        if self.opt(0.3):
            c = c + [self.kw(r.choice(["and", "or"])), self.sig(), "=", "'1'"]
        if self.opt(0.5):
            c = ["("] + c + [")"]
        return c

    def aggregate(self):
        r = self.r
        k = r.randrange(4)
        if k == 0:
            return ["(", self.kw("others"), "=>", "'0'", ")"]
        if k == 1:
            return ["(", "0", "=>", "'1'", ",", self.kw("others"), "=>", "'0'", ")"]
        if k == 2:
            return ["(", self.ident("fld_a"), "=>", self.sig(), ",", self.ident("fld_b"), "=>", "(", self.kw("others"), "=>", "'0'", ")", ")"]
        return ["("] + self.literal()[:1] + [","] + self.literal()[:1] + [","] + self.literal()[:1] + [")"]

    def subtype(self):
        r = self.r
        k = r.randrange(7)
        if k == 0:
            return [self.ident("std_logic")]
        if k == 1:
            return [self.ident("std_logic_vector"), "(", str(r.randrange(1, 32)), self.kw("downto"), "0", ")"]
        if k == 2:
            return [self.ident("integer"), self.kw("range"), "0", self.kw("to"), str(r.randrange(1, 255))]
        if k == 3:
            return [self.ident("unsigned"), "(", self.ident("g_width"), "-", "1", self.kw("downto"), "0", ")"]
        if k == 4:
            return [self.ident("natural")]
        if k == 5:
            return [self.ident("t_state")]
        return [self.ident("boolean")]

    # --- statements: each returns list of "lines", a line = list of tokens; None = blank line
    def seq_stmt(self, d=0):
        r = self.r
        k = r.randrange(14) if d < 3 else r.randrange(6)
        L = []
        if k in (0, 1, 2):
            L.append([self.sig(), "<="] + self.expr() + [";"])
        elif k == 3:
            L.append([self.ident("v_tmp"), ":="] + self.expr() + [";"])
        elif k == 4:
            L.append([self.kw("null"), ";"])
        elif k == 5:
            s = [self.kw("report"), '"msg"']
            if self.opt():
                s += [self.kw("severity"), self.kw(r.choice(["note", "warning", "error", "failure"]))]
            if self.opt(0.4):
                s = [self.kw("assert")] + self.cond() + s
            L.append(s + [";"])
        elif k in (6, 7, 8):
            lab = [self.ident(self.uid("if_l")), ":"] if self.opt(0.15) else []
            L.append(lab + [self.kw("if")] + self.cond() + [self.kw("then")])
            for _ in range(r.choice([1, 1, 2])):
                L += self.seq_stmt(d + 1)
            for _ in range(r.choice([0, 0, 1])):
                L.append([self.kw("elsif")] + self.cond() + [self.kw("then")])
                L += self.seq_stmt(d + 1)
            if self.opt(0.5):
                L.append([self.kw("else")])
                L += self.seq_stmt(d + 1)
            L.append([self.kw("end"), self.kw("if")] + ([lab[0]] if lab and self.opt() else []) + [";"])
        elif k == 9:
            L.append([self.kw("case"), self.sig(), self.kw("is")])
            for ch in r.sample(['"00"', '"01"', '"10"', "0", "1", "2", "idle", "run"], 2):
                L.append([self.kw("when"), ch, "=>"])
                L += self.seq_stmt(d + 1)
            L.append([self.kw("when"), self.kw("others"), "=>"])
            L.append([self.kw("null"), ";"])
            L.append([self.kw("end"), self.kw("case"), ";"])
        elif k == 10:
            lab = [self.ident(self.uid("lp")), ":"] if self.opt(0.4) else []
            v = self.ident("i")
            L.append(lab + [self.kw("for"), v, self.kw("in"), "0", self.kw("to"), str(r.randrange(1, 9)), self.kw("loop")])
            L += self.seq_stmt(d + 1)
            if self.opt(0.3):
                L.append([self.kw(r.choice(["exit", "next"]))] + ([self.kw("when")] + self.cond() if self.opt() else []) + [";"])
            L.append([self.kw("end"), self.kw("loop")] + ([lab[0]] if lab and self.opt() else []) + [";"])
        elif k == 11:
            L.append([self.kw("while")] + self.cond() + [self.kw("loop")])
            L += self.seq_stmt(d + 1)
            L.append([self.kw("end"), self.kw("loop"), ";"])
        elif k == 12:
            L.append([self.kw("wait")] + r.choice([[self.kw("until"), self.kw("rising_edge"), "(", self.ident("clk"), ")"], [self.kw("for"), "10", self.kw("ns")], [self.kw("on"), self.sig()], []]) + [";"])
        else:
            L.append([self.ident("p_do"), "(", self.sig(), ",", self.sig(), ")", ";"])
        return L

    def process(self):
        r = self.r
        lab = [self.ident(self.uid("proc")), ":"] if self.opt(0.6) else []
        head = lab + [self.kw("process")]
        sens = self.opt(0.75)
        if sens:
            head += ["(", self.ident("clk")] + ([",", self.ident("rst")] if self.opt() else []) + [")"] if self.opt(0.8) else ["(", self.kw("all"), ")"]
        if self.opt(0.6):
            head += [self.kw("is")]
        L = [head]
        if self.opt(0.5):
            L.append([self.kw("variable"), self.ident("v_tmp"), ":"] + self.subtype() + ([":="] + self.literal()[:1] if self.opt(0.3) else []) + [";"])
        L.append([self.kw("begin")])
        if sens and self.opt(0.6):
            edge = [self.kw("rising_edge"), "(", self.ident("clk"), ")"] if self.opt(0.6) else [self.ident("clk"), "'", self.kw("event"), self.kw("and"), self.ident("clk"), "=", "'1'"]
            if self.opt(0.5):
                L.append([self.kw("if"), self.ident("rst"), "=", "'1'", self.kw("then")])
                L += self.seq_stmt(1)
                L.append([self.kw("elsif")] + (["("] + edge + [")"] if self.opt() else edge) + [self.kw("then")])
            else:
                L.append([self.kw("if")] + edge + [self.kw("then")])
            for _ in range(r.choice([1, 2, 3])):
                L += self.seq_stmt(1)
            L.append([self.kw("end"), self.kw("if"), ";"])
        else:
            for _ in range(r.choice([1, 2, 3])):
                L += self.seq_stmt(1)
            if not sens:
                L.append([self.kw("wait"), ";"])
        L.append([self.kw("end")] + ([self.kw("process")] if self.opt(0.85) else [self.kw("process")]) + ([lab[0]] if lab and self.opt() else []) + [";"])
        return L

    def conc_stmt(self, d=0):
        r = self.r
        k = r.randrange(12) if d < 2 else r.randrange(6)
        L = []
        if k in (0, 1):
            lab = [self.ident(self.uid("a")), ":"] if self.opt(0.15) else []
            L.append(lab + [self.sig(), "<="] + self.expr() + [";"])
        elif k == 2:
            L.append([self.sig(), "<="] + self.expr() + [self.kw("when")] + self.cond() + [self.kw("else")] + self.expr() + ([self.kw("when")] + self.cond() + [self.kw("else")] + self.expr() if self.opt(0.4) else []) + [";"])
        elif k == 3:
            L.append([self.kw("with"), self.sig(), self.kw("select")])
            L.append([self.sig(), "<="] + self.literal()[:1] + [self.kw("when"), '"00"', ","])
            L.append(self.literal()[:1] + [self.kw("when"), '"01"', ","])
            L.append(self.literal()[:1] + [self.kw("when"), self.kw("others"), ";"])
        elif k in (4, 5):
            L += self.process()
        elif k == 6:
            lab = self.ident(self.uid("u_inst"))
            how = r.randrange(3)
            head = [lab, ":"] + ([self.kw("entity"), self.ident("work"), ".", self.ident("sub_ent")] + (["(", self.ident("rtl"), ")"] if self.opt(0.4) else []) if how == 0 else ([self.kw("component")] if how == 1 else []) + [self.ident("sub_comp")])
            L.append(head)
            if self.opt(0.5):
                L.append([self.kw("generic"), self.kw("map"), "("])
                L.append([self.ident("g_width"), "=>", "8", ",", self.ident("g_depth"), "=>", "16"])
                L.append([")"])
            L.append([self.kw("port"), self.kw("map"), "("])
            ports = [("clk", [self.ident("clk")]), ("rst", [self.ident("rst")]), ("d", self.expr(2)), ("q", [self.kw("open")] if self.opt(0.3) else [self.sig()])]
            for i, (p, e) in enumerate(ports):
                L.append([self.ident(p), "=>"] + e + ([","] if i < len(ports) - 1 else []))
            L.append([")", ";"])
        elif k == 7:
            lab = self.ident(self.uid("gen"))
            if self.opt():
                L.append([lab, ":", self.kw("for"), self.ident("i"), self.kw("in"), "0", self.kw("to"), "3", self.kw("generate")])
            else:
                L.append([lab, ":", self.kw("if"), self.ident("g_width"), ">", "4", self.kw("generate")])
            if self.opt(0.3):
                L.append([self.kw("signal"), self.ident("s_loc"), ":"] + self.subtype() + [";"])
                L.append([self.kw("begin")])
            for _ in range(r.choice([1, 2])):
                L += self.conc_stmt(d + 1)
            L.append([self.kw("end"), self.kw("generate")] + ([lab] if self.opt() else []) + [";"])
        elif k == 8:
            lab = self.ident(self.uid("blk"))
            L.append([lab, ":", self.kw("block")] + ([self.kw("is")] if self.opt() else []))
            if self.opt():
                L.append([self.kw("signal"), self.ident("s_blk"), ":"] + self.subtype() + [";"])
            L.append([self.kw("begin")])
            L += self.conc_stmt(d + 1)
            L.append([self.kw("end"), self.kw("block")] + ([lab] if self.opt() else []) + [";"])
        elif k == 9:
            lab = [self.ident(self.uid("chk")), ":"] if self.opt(0.3) else []
            L.append(lab + [self.kw("assert")] + self.cond() + [self.kw("report"), '"bad"', self.kw("severity"), self.kw("error"), ";"])
        elif k == 10:
            L.append(([self.ident(self.uid("pc")), ":"] if self.opt(0.3) else []) + [self.ident("p_do"), "(", self.sig(), ",", self.sig(), ")", ";"])
        elif self.opt(0.5):
            # multi-line aggregate whose closing `);` carries a trailing comment (glued or not)
            tgt = [self.sig(), "<="] if self.opt(0.7) else [self.ident("v_tmp"), ":="]
            if tgt[1] == ":=":
                tgt = [self.sig(), "<="]
            L.append(tgt + ["("])
            n = r.randrange(2, 5)
            for i in range(n):
                el = ([str(i), "=>"] if self.opt() else []) + self.literal()[:1]
                if i < n - 1:
                    L.append(el + [","] + (["-- element %d" % i] if self.opt(0.2) else []))
                else:
                    L.append(el + [")", ";"] + (["-- aggregate done"] if self.opt(0.7) else []))
        else:
            L.append([self.sig(), "<="] + self.aggregate() + [";"])
        return L

    def decl(self):
        r = self.r
        k = r.randrange(13)
        L = []
        if k in (0, 1, 2):
            names = [self.ident(self.uid("s_"))] + ([",", self.ident(self.uid("s_"))] if self.opt(0.25) else [])
            L.append([self.kw("signal")] + names + [":"] + self.subtype() + ([":="] + (self.aggregate() if self.opt(0.3) else self.literal()[:1]) if self.opt(0.3) else []) + [";"])
        elif k == 3:
            L.append([self.kw("constant"), self.ident(self.uid("c_")), ":"] + self.subtype() + [":="] + (self.literal()[:1] if self.opt(0.7) else self.aggregate()) + [";"])
        elif k == 4:
            L.append([self.kw("type"), self.ident("t_state"), self.kw("is"), "(", self.ident("idle"), ",", self.ident("run"), ",", self.ident("done"), ")", ";"])
        elif k == 5:
            L.append([self.kw("type"), self.ident(self.uid("t_mvl")), self.kw("is"), "(", "'U'", ",", "'X'", ",", "'0'", ",", "'1'", ")", ";"])
        elif k == 6:
            n = self.ident(self.uid("t_rec"))
            L.append([self.kw("type"), n, self.kw("is"), self.kw("record")])
            L.append([self.ident("fld_a"), ":"] + self.subtype() + [";"])
            L.append([self.ident("fld_b"), ":"] + self.subtype() + [";"])
            L.append([self.kw("end"), self.kw("record")] + ([n] if self.opt() else []) + [";"])
        elif k == 7:
            L.append([self.kw("type"), self.ident(self.uid("t_arr")), self.kw("is"), self.kw("array"), "(", "0", self.kw("to"), "7", ")", self.kw("of")] + self.subtype() + [";"])
        elif k == 8:
            L.append([self.kw("subtype"), self.ident(self.uid("st_")), self.kw("is")] + self.subtype() + [";"])
        elif k == 9:
            L.append([self.kw("component"), self.ident("sub_comp")] + ([self.kw("is")] if self.opt() else []))
            L.append([self.kw("port"), "("])
            L.append([self.ident("clk"), ":", self.kw("in"), self.ident("std_logic"), ";"])
            L.append([self.ident("q"), ":", self.kw("out"), self.ident("std_logic")])
            L.append([")", ";"])
            L.append([self.kw("end"), self.kw("component")] + ([self.ident("sub_comp")] if self.opt() else []) + [";"])
        elif k == 10 and self.opt(0.35):
            # operator overload: the designator is a string literal (operator symbol), any letter case
            n = r.choice(['"and"', '"AND"', '"+"', '"Mod"', '"="', '"Xor"', '"NOT"'])
            unary = n.lower() == '"not"'
            args = [self.ident("l"), ":", self.ident("t_state")] + ([] if unary else [";", self.ident("r"), ":", self.ident("t_state")])
            L.append([self.kw("function"), n, "("] + args + [")", self.kw("return"), self.ident("t_state"), self.kw("is")])
            L.append([self.kw("begin")])
            L.append([self.kw("return"), self.ident("l"), ";"])
            L.append([self.kw("end")] + ([self.kw("function")] if self.opt() else []) + ([n] if self.opt() else []) + [";"])
            if self.opt(0.4):
                L.append([self.kw("alias"), r.choice(['"NAND"', '"nor"', '"-"']), self.kw("is"), n, "[", self.ident("t_state")] + ([] if unary else [",", self.ident("t_state")]) + [self.kw("return"), self.ident("t_state"), "]", ";"])
        elif k == 10:
            n = self.ident("f_calc")
            L.append([self.kw("function"), n, "(", self.ident("x"), ":"] + ([self.kw("in")] if self.opt(0.3) else []) + [self.ident("integer"), ")", self.kw("return"), self.ident("integer"), self.kw("is")])
            L.append([self.kw("begin")])
            L.append([self.kw("return"), self.ident("x"), "+", "1", ";"])
            L.append([self.kw("end")] + ([self.kw("function")] if self.opt() else []) + ([n] if self.opt() else []) + [";"])
        elif k == 11:
            n = self.ident("p_do")
            L.append([self.kw("procedure"), n, "(", self.kw("signal"), self.ident("x"), ":", self.kw("in"), self.ident("std_logic"), ";", self.kw("signal"), self.ident("y"), ":", self.kw("out"), self.ident("std_logic"), ")", self.kw("is")])
            L.append([self.kw("begin")])
            L.append([self.ident("y"), "<=", self.ident("x"), ";"])
            L.append([self.kw("end")] + ([self.kw("procedure")] if self.opt() else []) + ([n] if self.opt() else []) + [";"])
        else:
            L.append([self.kw("attribute"), self.ident("keep"), ":", self.ident("string"), ";"])
            L.append([self.kw("attribute"), self.ident("keep"), self.kw("of"), self.ident("clk"), ":", self.kw("signal"), self.kw("is"), '"true"', ";"])
        return L

    def design(self):
        r = self.r
        L = []
        if self.opt(0.8):
            L.append([self.kw("library"), self.ident("ieee"), ";"])
            if self.opt(0.25):
                L.append(None)  # a blank line inside the library region
            L.append([self.kw("use"), self.ident("ieee"), ".", self.ident("std_logic_1164"), ".", self.kw("all"), ";"])
            if self.opt(0.2):
                L.append(None)
            if self.opt():
                L.append([self.kw("use"), self.ident("ieee"), ".", self.ident("numeric_std"), ".", self.kw("all"), ";"])
            if self.opt(0.3):
                if self.opt(0.3):
                    L.append(None)
                L.append([self.kw("context"), self.ident("ieee"), ".", self.ident("ieee_std_context"), ";"])
            if self.opt(0.2):
                L.append([self.kw("library"), self.ident("work"), ";"])
                L.append([self.kw("use"), self.ident("work"), ".", self.ident("pkg_common"), ".", self.kw("all"), ";"])
            L.append(None)
        kind = r.randrange(10)
        if kind < 7:
            en = self.ident(self.uid("ent"))
            L.append([self.kw("entity"), en, self.kw("is")])
            if self.opt(0.6):
                L.append([self.kw("generic"), "("])
                L.append([self.ident("g_width"), ":", self.ident("integer"), ":=", "8", ";"])
                L.append([self.ident("g_depth"), ":", self.ident("natural"), ":=", "16"])
                L.append([")", ";"])
            L.append([self.kw("port"), "("])
            ports = [("clk", "in"), ("rst", "in"), ("data_i", "in"), ("en", "in"), ("sel", "in"), ("data_o", "out"), ("q", "out"), ("vec", "inout")]
            ports = ports[: r.randrange(3, len(ports) + 1)]
            for i, (p, m) in enumerate(ports):
                L.append([self.ident(p), ":", self.kw(m)] + self.subtype() + ([";"] if i < len(ports) - 1 else []))
            L.append([")", ";"])
            L.append([self.kw("end")] + ([self.kw("entity")] if self.opt(0.6) else []) + ([en] if self.opt(0.6) else []) + [";"])
            L.append(None)
            an = self.ident(r.choice(["rtl", "behav", "arch"]))
            L.append([self.kw("architecture"), an, self.kw("of"), en, self.kw("is")])
            for _ in range(r.randrange(1, 7)):
                L += self.decl()
            L.append([self.kw("begin")])
            for _ in range(r.randrange(1, 7)):
                L += self.conc_stmt()
            L.append([self.kw("end")] + ([self.kw("architecture")] if self.opt(0.6) else []) + ([an] if self.opt(0.6) else []) + [";"])
        elif kind < 9:
            pn = self.ident(self.uid("pkg"))
            L.append([self.kw("package"), pn, self.kw("is")])
            for _ in range(r.randrange(1, 5)):
                d = self.decl()
                # packages hold subprogram declarations, not bodies
                if d[0][0].lower() in ("function", "procedure"):
                    d = [d[0][:-1] + [";"]]
                L += d
            if self.opt(0.4):
                L.append([self.kw("constant"), self.ident("c_deferred"), ":", self.ident("integer"), ";"])
            L.append([self.kw("end")] + ([self.kw("package")] if self.opt(0.6) else []) + ([pn] if self.opt(0.6) else []) + [";"])
            if self.opt(0.6):
                L.append(None)
                L.append([self.kw("package"), self.kw("body"), pn, self.kw("is")])
                for _ in range(r.randrange(1, 4)):
                    d = self.decl()
                    while d[0][0].lower() in ("signal", "component", "attribute"):
                        d = self.decl()
                    L += d
                L.append([self.kw("end")] + ([self.kw("package"), self.kw("body")] if self.opt(0.6) else []) + ([pn] if self.opt(0.6) else []) + [";"])
        else:
            cn = self.ident(self.uid("ctx"))
            L.append([self.kw("context"), cn, self.kw("is")])
            L.append([self.kw("library"), self.ident("ieee"), ";"])
            L.append([self.kw("use"), self.ident("ieee"), ".", self.ident("std_logic_1164"), ".", self.kw("all"), ";"])
            L.append([self.kw("end")] + ([self.kw("context")] if self.opt() else []) + ([cn] if self.opt() else []) + [";"])
        return L

    # --- layout
    def layout(self, L):
        r = self.r
        out = []
        depth = 0
        pending = ""
        for ln in L:
            if ln is None:
                out.append("")
                continue
            first = ln[0].lower()
            if first in ("end", "elsif", "else", "begin", ")", "when") and depth > 0:
                depth -= 1 if first != "when" else 0
            text = self.join_tokens(ln)
            if self.style == "tidy":
                ind = "  " * depth
            elif self.style == "compact":
                ind = ""
            else:
                ind = r.choice(["", " ", "  ", "   ", "\t", "      "]) if r.random() < 0.6 else "  " * depth
            com = ""
            if self.comments and r.random() < 0.2:
                com = r.choice([" -- note", "  --x", " --! doc", "\t-- tail ; end process", " -- \"q\" 'c'"])
            if self.comments and r.random() < 0.08:
                out.append(ind + r.choice(["-- own line comment", "--", "-- end if; begin", "---------------", "/* block */"]))
            if self.comments and r.random() < 0.09:
                # a block comment: 3-5 consecutive comment lines, short / punctuation-only headers and footers included
                edge = ["---", "--=", "--+", "--", "--!", "--------------------", "--====", "-- x", "--|"]
                out.append(ind + r.choice(edge))
                for _ in range(r.randrange(1, 4)):
                    out.append(ind + r.choice(["-- text of the block", "--", "--  indented text", "--| doc", "-- TODO: check"]))
                out.append(ind + r.choice(edge))
            if self.style in ("oneline", "messy") and r.random() < (0.35 if self.style == "oneline" else 0.1) and not com and not ln[-1].startswith("--"):
                pending += text + " "
                continue
            if ln[-1].startswith("--"):
                com = ""  # the line already ends in a comment token
            # split a line at a random token boundary
            if self.style == "messy" and len(ln) > 3 and r.random() < 0.12 and not ln[-1].startswith("--"):
                cut = r.randrange(1, len(ln))
                out.append(ind + pending + self.join_tokens(ln[:cut]))
                out.append(ind + "  " + self.join_tokens(ln[cut:]) + com)
                pending = ""
            else:
                out.append(ind + pending + text + com)
                pending = ""
            if r.random() < 0.05:
                out.append(r.choice(["", "", "   "]))
            last = ln[-1].lower()
            if first not in ("end",) and (last in ("is", "then", "begin", "loop", "generate", "else", "(", "record", "=>", "select") or first in ("begin", "else")):
                depth += 1
        if pending:
            out.append(pending.rstrip())
        return NL.join(out)

    def join_tokens(self, toks):
        r = self.r
        s = ""
        for i, t in enumerate(toks):
            if i == 0:
                s = t
                continue
            prev = toks[i - 1]
            if t.startswith("--"):
                s += r.choice(["", " ", " ", "   "]) + t
                continue
            tight = t in (";", ",", ")", ".", "'") or prev in ("(", ".", "'") or (t == "(" and prev[0].isalpha() and prev.lower() not in ("port", "generic", "map", "if", "elsif", "is", "process", "array", "when", "and", "or", "not", "while", "report", "assert"))
            if self.style == "tidy":
                sp = "" if tight else " "
            elif self.style == "compact":
                need = (prev[-1].isalnum() or prev[-1] in "_\"'") and (t[0].isalnum() or t[0] in "_\"'\\")
                sp = " " if need or not tight and r.random() < 0.3 else ""
                if prev == "'" or t == "'":
                    sp = ""
            else:
                if tight:
                    sp = "" if r.random() < 0.8 else " "
                    if t == "'" or prev == "'":
                        sp = ""
                else:
                    sp = r.choice([" ", " ", " ", "  ", "    ", "\t"]) if r.random() < 0.9 else ""
                    need = (prev[-1].isalnum() or prev[-1] in "_\"'") and (t[0].isalnum() or t[0] in "_\"'\\")
                    if need and sp == "":
                        sp = " "
            # never create `--`, `/*`, `**`, `<=`, `=>`, `:=`, `/=`, `>=`, `<>` by accident
            if sp == "" and (prev[-1] + t[0]) in ("--", "/*", "**", "<=", "=>", ":=", "/=", ">=", "<>", "<<", ">>", "??", "?=", "?<", "?>", "*/"):
                sp = " "
            s += sp + t
        return s


def generate(g):
    gen = G(g)
    return gen.layout(gen.design())
