#!/usr/bin/env python3
"""Offline setup: nothing is installed; creates output directories and byte-compiles the framework."""
import compileall, os, sys
HERE = os.path.dirname(os.path.abspath(__file__))
for d in ("evidence", "replays"):
    os.makedirs(os.path.join(HERE, d), exist_ok=True)
ok = compileall.compile_dir(os.path.join(HERE, "lib"), quiet=1) and compileall.compile_dir(os.path.join(HERE, "props"), quiet=1)
sys.path.insert(0, "/repo")
import vsg  # the repository must be importable from its working tree
print("setup ok; vsg from", vsg.__file__)
sys.exit(0 if ok else 1)
