#!/venv/bin/python
"""Development tool: sweep the WHOLE finite universe of a tier with all fix-run monitors attached and
aggregate every (property, mechanism key) seen on the current tree.  Output: sweep_<tier>.json
(keys, counts, two example cases each).  Used to establish known_findings.json; never used by checks."""
import json, os, sys, time
HERE = os.path.dirname(os.path.dirname(os.path.abspath(__file__)))
sys.path.insert(0, HERE); sys.path.insert(1, "/repo")
from lib import fixrun, harness

tier = sys.argv[1] if len(sys.argv) > 1 else "quick"
part = sys.argv[2] if len(sys.argv) > 2 else "0/1"   # i/n slice
i, n = (int(x) for x in part.split("/"))
out = sys.argv[3] if len(sys.argv) > 3 else os.path.join(HERE, "sweep_%s_%d_%d.json" % (tier, i, n))
gen_only = tier.endswith("_gen")
tier = tier.replace("_gen", "")
cases = fixrun.universe(tier, 0, 0, 0, full=True)
if gen_only:
    cases = [c for c in cases if "gen" in c]
if os.environ.get("SWEEP_MINUS_QUICK"):
    q = {fixrun.case_name(c) for c in fixrun.universe("quick", 0, 0, 0, full=True)}
    cases = [c for c in cases if fixrun.case_name(c) not in q]
if os.environ.get("SWEEP_FILES"):
    ff = os.environ["SWEEP_FILES"].split(",")
    cases = [c for c in cases if ("gen" in c and "gen" in ff) or any(x in c.get("file", "") for x in ff if x != "gen")]
if os.environ.get("SWEEP_CFGS"):
    cc = tuple(os.environ["SWEEP_CFGS"].split(","))
    cases = [c for c in cases if str(c.get("cfg", "")).startswith(cc)]
if os.environ.get("SWEEP_KINDS"):
    kk = set(os.environ["SWEEP_KINDS"].split(","))
    cases = [c for c in cases if c.get("variant") and any(k in kk for k, _ in c["variant"])]
cases = cases[i::n]
print(len(cases), "cases", flush=True)
t0 = time.time()
agg = {}
nontriv = {}
status = {}
CH = 4000
for off in range(0, len(cases), CH):
    chunk = cases[off:off + CH]
    res = harness.run_cases("props.sweepall", chunk, cpu=600, wall=3000)
    for c, r in zip(chunk, res):
        status[r.get("status", "ok")] = status.get(r.get("status", "ok"), 0) + 1
        for p in r.get("nontrivial", []):
            nontriv[p] = nontriv.get(p, 0) + 1
        for p, ks in (r.get("keys") or {}).items():
            for key, det in ks:
                if p != "C19":
                    key = "%s|%s" % (key, fixrun.variant_class(c))
                d = agg.setdefault(p, {}).setdefault(key, {"count": 0, "examples": []})
                d["count"] += 1
                if len(d["examples"]) < 2:
                    d["examples"].append({"case": c, "detail": det})
        if r.get("status") in ("harness_error", "worker_died", "inconclusive"):
            d = agg.setdefault("HARNESS", {}).setdefault(str(r.get("detail"))[:120], {"count": 0, "examples": []})
            d["count"] += 1
            if len(d["examples"]) < 2:
                d["examples"].append({"case": c, "detail": r.get("trace", "")[-1500:]})
    json.dump({"tier": tier, "part": part, "done": off + len(chunk), "total": len(cases), "wall": time.time() - t0, "status": status, "nontrivial": nontriv, "keys": agg}, open(out, "w"), indent=1, default=str)
    print("done", off + len(chunk), "/", len(cases), "wall", round(time.time() - t0), {p: len(k) for p, k in agg.items()}, flush=True)
