#!/venv/bin/python
"""Development tool: sweep the whole broken-input universe (file x kind x k<3) through props.c19."""
import json, os, sys, time
HERE = os.path.dirname(os.path.dirname(os.path.abspath(__file__)))
sys.path.insert(0, HERE); sys.path.insert(1, "/repo")
from lib import harness, transforms, vsgapi
from props import c19
out = sys.argv[1] if len(sys.argv) > 1 else os.path.join(HERE, "sweep_broken.json")
cases = []
for f in vsgapi.corpus():
    for kind in (os.environ.get("SWEEP_BREAK_KINDS", "").split(",") if os.environ.get("SWEEP_BREAK_KINDS") else transforms.BREAK_KINDS):
        for k in range(3):
            for fix in (False, True):
                cases.append({"kind": "broken", "file": f, "break": kind, "k": k, "fix": fix, "_cpu": c19.BROKEN_CPU})
print(len(cases), flush=True)
res = harness.run_cases("props.c19", cases, cpu=60, wall=1200, progress=5000)
agg = {}
for c, r in zip(cases, res):
    if r.get("status", "ok") not in ("ok",):
        key = "STATUS:" + r.get("status") + ":" + (c19.fixrun.loop_frame(r.get("trace", "")) if r.get("status") == "hang" else str(r.get("detail"))[:80])
        d = agg.setdefault(key, {"count": 0, "examples": []}); d["count"] += 1
        if len(d["examples"]) < 2: d["examples"].append(c)
        continue
    for key, det in r.get("violations", []):
        d = agg.setdefault(key, {"count": 0, "examples": []}); d["count"] += 1
        if len(d["examples"]) < 2: d["examples"].append({"case": c, "detail": det})
json.dump(agg, open(out, "w"), indent=1, default=str)
for k, v in sorted(agg.items()): print(v["count"], k)
