#!/usr/bin/env python3
"""tools/seed_matrix.py [tier] [seed-id ...] — applies every seeded change (in a scratch worktree via
VSG_REPO, never in /repo), runs the check of the property it breaks, and records whether the check
raised an unlisted VIOLATION.  Writes seeded/RESULTS.json."""
import json, os, subprocess, sys, tempfile, shutil
HERE = os.path.dirname(os.path.dirname(os.path.abspath(__file__)))
tier = sys.argv[1] if len(sys.argv) > 1 else "quick"
ids = sys.argv[2:] or sorted(os.listdir(os.path.join(HERE, "seeded")))
ids = [i for i in ids if os.path.isdir(os.path.join(HERE, "seeded", i))]
resp = os.path.join(HERE, "seeded", "RESULTS.json")
res = json.load(open(resp)) if os.path.exists(resp) else {}
for sid in ids:
    meta = json.load(open(os.path.join(HERE, "seeded", sid, "meta.json")))
    prop = meta["property"].split()[0].strip()
    props = [prop] + [p for p in meta.get("also_check", [])]
    wt = tempfile.mkdtemp(prefix="seedmx_"); os.rmdir(wt)
    subprocess.run("git -C /repo worktree add -q --detach %s HEAD" % wt, shell=True, check=True)
    try:
        a = subprocess.run("git -C %s apply %s" % (wt, os.path.join(HERE, "seeded", sid, "patch.diff")), shell=True)
        if a.returncode:
            res.setdefault(sid, {})[tier] = "patch does not apply"; continue
        for p in props:
            ev = tempfile.mkdtemp(prefix="seedmx_ev_")
            env = dict(os.environ, VSG_REPO=wt, VERIF_EVIDENCE_DIR=ev)
            r = subprocess.run([os.path.join(HERE, "check"), p, "--tier", tier], cwd=HERE, env=env, capture_output=True, text=True)
            shutil.rmtree(ev, ignore_errors=True)
            viol = [l for l in r.stdout.splitlines() if l.startswith("VIOLATION")]
            res.setdefault(sid, {})["%s:%s" % (p, tier)] = {"rc": r.returncode, "violations": len(viol), "first": [v[:200] for v in viol[:3]]}
            print(sid, p, tier, "rc=%d" % r.returncode, "CAUGHT" if viol else "missed", (viol[0][:160] if viol else ""), flush=True)
    finally:
        subprocess.run("git -C /repo worktree remove --force %s" % wt, shell=True)
    json.dump(res, open(resp, "w"), indent=1)
