#!/usr/bin/env python3
"""tools/confirm_seed.py <out_dir> <seed-id>
Confirms a sub-agent's seeded change independently in a fresh scratch worktree of /repo:
 patch applies, package imports, the pinned test suite still passes (all of BASELINE.stable_pass),
 the demonstration fails with the change and passes without it.  On success copies
 patch.diff / demo / meta.json (+ our confirmation record) to /verif/seeded/<seed-id>/."""
import json, os, shutil, subprocess, sys, tempfile, xml.etree.ElementTree as ET
HERE = os.path.dirname(os.path.dirname(os.path.abspath(__file__)))
src, sid = sys.argv[1], sys.argv[2]
wt = tempfile.mkdtemp(prefix="seedconfirm_")
os.rmdir(wt)
def sh(cmd, **kw):
    return subprocess.run(cmd, shell=True, capture_output=True, text=True, **kw)
r = sh("git -C /repo worktree add -q --detach %s HEAD" % wt)
rec = {"worktree_base": sh("git -C /repo rev-parse --short HEAD").stdout.strip()}
try:
    a = sh("git -C %s apply %s" % (wt, os.path.join(src, "patch.diff")))
    rec["applies"] = a.returncode == 0
    if not rec["applies"]:
        print("patch does not apply:", a.stderr[:300]); sys.exit(1)
    demo = "demo.py" if os.path.exists(os.path.join(src, "demo.py")) else "demo.sh"
    run = ("/venv/bin/python %s" if demo.endswith(".py") else "sh %s") % os.path.join(src, demo)
    env = dict(os.environ); env.pop("VSG_REPO", None)
    d1 = sh("%s %s" % (run, wt), env=dict(env, PYTHONPATH=wt), timeout=900)
    d0 = sh("%s /repo" % run, env=dict(env, PYTHONPATH="/repo"), timeout=900)
    rec["demo_on_seeded_tree_rc"] = d1.returncode
    rec["demo_on_unchanged_tree_rc"] = d0.returncode
    b = json.load(open("/root/.vp/BASELINE.json"))
    out = tempfile.mktemp(suffix=".xml")
    cmd = b["cmd"].replace("cd /repo", "cd " + wt).replace("<file>", out)
    t = sh(cmd, env=dict(env, PYTHONPATH=wt), timeout=3600)
    passed = set()
    for tc in ET.parse(out).getroot().iter("testcase"):
        if not any(ch.tag in ("failure", "error", "skipped") for ch in tc):
            passed.add(tc.get("classname") + "::" + tc.get("name"))
    os.remove(out)
    missing = sorted(set(b["stable_pass"]) - passed)
    rec["suite_passed"] = len(passed); rec["stable_pass_missing"] = missing[:5]
    ok = d1.returncode != 0 and d0.returncode == 0 and not missing
    rec["confirmed"] = ok
    print(json.dumps(rec, indent=1))
    if ok:
        dst = os.path.join(HERE, "seeded", sid)
        os.makedirs(dst, exist_ok=True)
        shutil.copy(os.path.join(src, "patch.diff"), dst)
        shutil.copy(os.path.join(src, demo), dst)
        meta = json.load(open(os.path.join(src, "meta.json")))
        meta["confirmation"] = rec
        json.dump(meta, open(os.path.join(dst, "meta.json"), "w"), indent=1)
    sys.exit(0 if ok else 1)
finally:
    sh("git -C /repo worktree remove --force %s" % wt)
    shutil.rmtree(wt, ignore_errors=True)
