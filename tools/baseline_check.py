#!/usr/bin/env python3
"""Runs the repository's pinned test suite (hooks off: there are none) and compares with BASELINE.json's stable_pass."""
import json, os, subprocess, sys, tempfile, xml.etree.ElementTree as ET
b = json.load(open("/root/.vp/BASELINE.json"))
out = tempfile.mktemp(suffix=".xml")
cmd = b["cmd"].replace("<file>", out)
env = dict(os.environ); env.pop("VSG_VERIF", None)
p = subprocess.run(cmd, shell=True, capture_output=True, text=True, env=env)
passed = set()
for tc in ET.parse(out).getroot().iter("testcase"):
    if not any(ch.tag in ("failure", "error", "skipped") for ch in tc):
        passed.add(tc.get("classname") + "::" + tc.get("name"))
os.remove(out)
want = set(b["stable_pass"])
missing = sorted(want - passed)
print("baseline stable_pass:", len(want), "passed now:", len(passed), "missing:", len(missing))
for m in missing[:20]:
    print("  MISSING", m)
sys.exit(1 if missing else 0)
