#!/usr/bin/env python3
"""Development tool: merge mechanism keys observed by a sweep of the PINNED tree into
known_findings.json (status open).  Each entry keeps the witness case of the sweep.  Run by hand
after triage; checks never call it."""
import json, os, sys
HERE = os.path.dirname(os.path.dirname(os.path.abspath(__file__)))
sys.path.insert(0, HERE)
from lib import harness
kf_path = os.path.join(HERE, "known_findings.json")
kf = json.load(open(kf_path))
have = {(e["property"], e["key"]) for e in kf["findings"]}
skip_props = set(os.environ.get("KF_SKIP", "HARNESS").split(","))
only = set(os.environ.get("KF_ONLY", "").split(",")) - {""}
added = 0
for path in sys.argv[1:]:
    d = json.load(open(path))
    keys = d["keys"] if "keys" in d else {"C19": d}
    for prop, ks in keys.items():
        if prop in skip_props or (only and prop not in only):
            continue
        for key, info in ks.items():
            if key.startswith("STATUS:"):
                continue
            if prop == "C19":
                from props import c19
                key = c19._norm(key)
            if (prop, key) in have:
                continue
            ex = info["examples"][0] if info.get("examples") else {}
            case = ex.get("case", ex)
            det = ex.get("detail", {})
            kf["findings"].append({
                "property": prop, "key": key, "status": "open",
                "what": harness.describe(prop, key),
                "witness": {"case": case, "observed": json.loads(json.dumps(det, default=str))},
                "seen": info.get("count"),
            })
            have.add((prop, key))
            added += 1
json.dump(kf, open(kf_path, "w"), indent=1)
print("added", added, "total", len(kf["findings"]))
