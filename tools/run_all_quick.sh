#!/bin/sh
# runs every quick check on the unchanged tree (evidence is written to /verif/evidence)
cd "$(dirname "$0")/.."
SEED="${1:-0}"
for i in 01 02 03 04 05 06 07 08 09 10 11 12 13 14 15 16 17 18 19 20; do
  s=$(date +%s)
  VERIF_SEED=$SEED ./check C$i --tier quick > /tmp/quick_C$i.$SEED.log 2>&1
  rc=$?
  e=$(date +%s)
  echo "C$i seed=$SEED rc=$rc wall=$((e-s))s known=$(grep -c '^KNOWN-FINDING' /tmp/quick_C$i.$SEED.log) viol=$(grep -c '^VIOLATION' /tmp/quick_C$i.$SEED.log) inconcl=$(grep -c '^INCONCLUSIVE' /tmp/quick_C$i.$SEED.log)"
done
