SOURCE_COMMITS = []
CHECKS = [
 {"id": "C04", "ref": "DESIGN.md §4 C04",
  "technique": "runtime post-condition monitor on tokens.create / vhdlFile emit (bounded-exhaustive + seeded) and stat+audit-hook observation of the real CLI",
  "text": "Held on every string up to the length bound over the delimiter alphabet (exhaustive), seeded random strings, every corpus line; every accepted corpus file and sampled re-layouts/encodings emit exactly what was read with all tokens classified; observed CLI runs on clean files perform no file-system mutation. Exploration: only the executions produced are decided.",
  "note": "Trusts os.stat and Python audit events as ground truth; 'clean' = no violation of an enabled fixable error-severity rule in an all-phases check."},
]
_TODO = "check under construction in this round; will be claimed when its monitor is built and swept"
NOT_APPLICABLE = [{"property_id": "C%02d" % i, "reason": _TODO} for i in range(1, 21) if "C%02d" % i not in {c["id"] for c in CHECKS}]
