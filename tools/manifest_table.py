SOURCE_COMMITS = []
CHECKS = [
 {"id": "C05", "ref": "DESIGN.md §4 C05",
  "technique": "differential runtime observation of the real classifier under meaning-preserving re-layouts built on an independent lexer",
  "text": "Roles of all code tokens compared between every corpus file (and generated designs) and its resize/split/join/comment/case/tabs variants; any role change or rejection of a variant is a violation. Exploration over a finite, seeded universe of variants.",
  "note": "The independent lexer decides where whitespace separates tokens; variants whose code-token values differ from the input's are discarded as unsound, never judged."},
 {"id": "C06", "ref": "DESIGN.md §4 C06",
  "technique": "state invariant asserted around every rule.analyze (token identity/class/attributes, token index, rule class attributes) plus differential reports (repeat / shuffled order / random disabled subset) on fresh objects",
  "text": "Every analysis inside real all-phases checks is observed for writes to the file model; reports are compared across repetition, analysis order and disabled subsets. Exploration: held on the executions produced.",
  "note": "Token state = identity, class and instance __dict__; module-level state is C15's monitor."},
 {"id": "C13", "ref": "DESIGN.md §4 C13",
  "technique": "reference model of phase gating checked against observed violations / fix-wrapper entries of the real rule_list (in-process) and the real CLI (-ap, -fp, skip_phase)",
  "text": "gated == prefix of all-phases report up to the first phase with an error-type violation; skipped phases neither reported nor fixed; --fix_phase N applies no rule of a later phase and yields the text the full run had when phase N ended; includes phase re-assignment and Warning demotion.",
  "note": "A rule's phase/severity are its attributes after configuration."},
 {"id": "C20", "ref": "DESIGN.md §4 C20",
  "technique": "differential runtime observation of rule_list.fix(dFixOnly) with an update() monitor recording which (rule, line) violations were repaired; CLI sample for the empty selection",
  "text": "all-rules-all == plain fix; empty selection fixes nothing and leaves the file untouched; for a line-local rule and a random subset of its reported lines exactly those lines change and no unlisted violation reaches update().",
  "note": "Line-local = documented whitespace/indent/alignment/case (C07 monitors that property of such fixes)."},
 {"id": "C04", "ref": "DESIGN.md §4 C04",
  "technique": "runtime post-condition monitor on tokens.create / vhdlFile emit (bounded-exhaustive + seeded) and stat+audit-hook observation of the real CLI",
  "text": "Held on every string up to the length bound over the delimiter alphabet (exhaustive), seeded random strings, every corpus line; every accepted corpus file and sampled re-layouts/encodings emit exactly what was read with all tokens classified; observed CLI runs on clean files perform no file-system mutation. Exploration: only the executions produced are decided.",
  "note": "Trusts os.stat and Python audit events as ground truth; 'clean' = no violation of an enabled fixable error-severity rule in an all-phases check."},
]
_TODO = "check under construction in this round; will be claimed when its monitor is built and swept"
NOT_APPLICABLE = [{"property_id": "C%02d" % i, "reason": _TODO} for i in range(1, 21) if "C%02d" % i not in {c["id"] for c in CHECKS}]
