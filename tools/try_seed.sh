#!/bin/sh
# tools/try_seed.sh <patch.diff> <tier> <ID> [<ID>...]
# Applies a seeded change to a scratch worktree of /repo (never to /repo itself), runs the given checks
# against it via VSG_REPO, prints the verdict lines, removes the worktree.  Evidence of these trial runs
# goes to a scratch directory so committed evidence is not clobbered.
PATCH="$1"; TIER="$2"; shift 2
WT=/tmp/seedtry_$$
git -C /repo worktree add -q --detach "$WT" HEAD || exit 3
if ! git -C "$WT" apply "$PATCH"; then echo "PATCH DOES NOT APPLY"; git -C /repo worktree remove --force "$WT"; exit 3; fi
cd "$(dirname "$0")/.."
for ID in "$@"; do
  echo "=== $ID ($TIER) on seeded tree"
  VSG_REPO="$WT" VERIF_EVIDENCE_DIR=/tmp/seedtry_ev_$$ ./check "$ID" --tier "$TIER" 2>&1 | grep -v "^KNOWN-FINDING" | cut -c1-220 | head -12
  echo "rc=$?"
done
git -C /repo worktree remove --force "$WT"
rm -rf /tmp/seedtry_ev_$$
