#!/usr/bin/env python3
"""Regenerates MANIFEST.json from the table below (kept in one place so it is always valid)."""
import json, os, sys
HERE = os.path.dirname(os.path.dirname(os.path.abspath(__file__)))
sys.path.insert(0, HERE)
from tools.manifest_table import CHECKS, NOT_APPLICABLE, SOURCE_COMMITS

BASE = "cd /repo && /venv/bin/python -m pytest -ra -q -p no:cacheprovider --timeout=900 --continue-on-collection-errors"
m = {
    "version": 1,
    "setup_cmd": "/venv/bin/python setup.py",
    "hooks": {
        "guard": "VSG_VERIF",
        "enable": "No source hooks are needed: monitors are attached at run time from outside by lib/monitors.py (in-process: every rule instance, the vhdlFile instance, tokens.create, apply_rules) and lib/vsg_launch.py (CLI subprocesses: audit hooks, fault injection); /repo is imported from its working tree through the editable install plus PYTHONPATH=/repo, so checks always run the current sources.",
        "baseline_off_cmd": BASE,
        "source_commits": SOURCE_COMMITS,
        "add_only": True,
    },
    "engines": [
        {"name": "check", "path": "check.py", "serves_properties": [c["id"] for c in CHECKS],
         "kind_free_text": "runtime monitoring: seeded workloads over the real code in worker subprocesses, monitors/oracles on hooked state and recorded events, known-findings matching, replay files, evidence"}
    ],
    "checks": [],
    "not_applicable": NOT_APPLICABLE,
    "notes": "Technique family: runtime monitoring (no sanitizers/race detectors apply: pure single-threaded Python). See DESIGN.md.",
}
for c in CHECKS:
    m["checks"].append({
        "property_id": c["id"],
        "quick_cmd": "./check %s --tier quick" % c["id"],
        "thorough_cmd": "./check %s --tier thorough" % c["id"],
        "evidence_file": "evidence/%s.json" % c["id"],
        "replay_cmd_template": "./check %s --replay {path}" % c["id"],
        "engine": "check",
        "level_claimed": {"category": c.get("level", "exploration"), "text": c["text"], "design_ref": c["ref"]},
        "level_note": c["note"],
        "technique": c["technique"],
    })
json.dump(m, open(os.path.join(HERE, "MANIFEST.json"), "w"), indent=1)
print("MANIFEST.json written:", len(CHECKS), "checks,", len(NOT_APPLICABLE), "not_applicable")
